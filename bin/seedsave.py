#!/usr/bin/env python3
"""seedsave.py <worktree id> <name> <property> <caught-by comma list> <missed-by comma list> -- archive a confirmed seeded change"""
import sys, os, shutil, json, glob
wid, name, prop, caught, missed = sys.argv[1:6]
needs = sys.argv[6] if len(sys.argv) > 6 else ""
src = f"/tmp/mut/{wid}/_out"
dst = f"/verif/seeded/{name}"
os.makedirs(dst, exist_ok=True)
for f in glob.glob(src + "/*"):
    if os.path.getsize(f) < 400000:
        shutil.copy(f, dst)
meta = {"breaks_property": prop, "needs_to_manifest": needs,
        "confirmed": "with the change: cargo test --offline passes the 56 baseline tests and the demonstration fails; without it the demonstration passes (bin/seedcheck.sh, scratch worktree, own target dir)",
        "checks_run": {"caught_by": [c for c in caught.split(",") if c], "not_caught_by": [c for c in missed.split(",") if c]},
        "source": "independent sub-agent given only the property text and a scratch worktree"}
json.dump(meta, open(dst + "/meta.json", "w"), indent=1)
print("saved", dst, os.listdir(dst))
