#!/bin/bash
# bencheck.sh <worktree-id> [checks...]: a behaviour-preserving change in /tmp/mut/<id> must pass the
# baseline tests and leave every listed check (default: all 20, quick tier) silent.  /repo is not touched.
V=${VERIF_DIR:-/verif}; ID=$1; shift; W=/tmp/mut/$ID
CHECKS=${@:-C01 C02 C03 C04 C05 C06 C07 C08 C09 C10 C11 C12 C13 C14 C15 C16 C17 C18 C19 C20}
export CARGO_NET_OFFLINE=true RUST_BACKTRACE=0
( cd $W; export CARGO_TARGET_DIR=/tmp/mut/target_confirm_$ID; touch src/main.rs
  cargo test --offline 2>&1 | grep -E "^test result|FAILED|error" | head -5; rm -rf /tmp/mut/target_confirm_$ID )
[ -d $V/target/harness_$ID ] || cp -a $V/target/harness $V/target/harness_$ID
cd $V
for c in $CHECKS; do
  t=$(date +%s)
  VERIF_REPO=$W bin/vf check $c --tier quick > /tmp/mut/ben_${ID}_$c.log 2>&1; e=$?
  echo "$ID $c exit $e $(( $(date +%s)-t ))s $(grep -c '^DRIFT' /tmp/mut/ben_${ID}_$c.log) drift $(grep -m1 -E 'VIOLATION|tool error|ToolError' /tmp/mut/ben_${ID}_$c.log)"
done
rm -rf $V/target/harness_$ID $V/target/e2e_$ID $V/work/*_$ID $V/evidence_$ID $V/replays_$ID
