#!/bin/bash
# seedrecheck.sh <worktree-id> <checks...>: like seedcheck.sh without the confirmation step (already confirmed)
V=${VERIF_DIR:-/verif}; ID=$1; shift; W=/tmp/mut/$ID
[ -d $V/target/harness_$ID ] || cp -a $V/target/harness $V/target/harness_$ID
cd $V
for c in "$@"; do
  tier=quick; case $c in *:t) tier=thorough; c=${c%:t};; esac
  VERIF_REPO=$W bin/vf check $c --tier $tier > /tmp/mut/seed_${ID}_$c.log 2>&1; e=$?
  echo "$ID $c ($tier) exit $e $(grep -m2 -E 'VIOLATION|TOOL' /tmp/mut/seed_${ID}_$c.log | tr '\n' ' ')"
done
rm -rf $V/target/harness_$ID $V/target/e2e_$ID $V/work/*_$ID
