"""Bounded instances of Trampoline.tla.  One source of truth for the TLC
configuration AND for the harness scenario that replays its schedules."""
import json, os
from . import scen

SPEC = os.path.dirname(os.path.dirname(os.path.dirname(os.path.realpath(__file__)))) + "/spec"
H = scen.H
A = scen.CFG_A
pd, h0 = A["pdelta"], A["h0"]
G1 = H("h1", 1, 6, 11, h0 + pd + 10, pd + 10)
G2 = H("h1", 1, 5, 11, h0 + pd + 20, pd + 20)
G3 = H("h1", 1, 11, 11, h0 + pd + 30, pd + 30)
CONF = H("h1", 2, 5, 11, h0 + pd + 30, pd + 30)
LOWEXP = H("h1", 1, 5, 11, h0 + pd - 10, pd - 10)
LOWTOT = H("h1", 1, 5, 10, h0 + pd + 30, pd + 30)
FOREIGN = H("h2", 1, 11, 11, h0 + pd + 30, pd + 30)
B1 = H("h2", 4, 6, 11, h0 + pd + 12, pd + 12)
B2 = H("h2", 4, 5, 11, h0 + pd + 22, pd + 22)
B3 = H("h2", 4, 11, 11, h0 + pd + 32, pd + 32)
# no fee at all: the set has to bring exactly the invoice amount and the budget handed to pay is 0
Z = {"base": 0, "ppm": 0, "pdelta": 40, "sdelta": 10, "mpp": 2, "h0": 100}
Z1 = H("h1", 1, 6, 10, h0 + pd + 10, pd + 10)
Z2 = H("h1", 1, 4, 10, h0 + pd + 20, pd + 20)
ZLOW = H("h1", 1, 4, 9, h0 + pd + 30, pd + 30)
# three parts, no two of which fund the set
T1 = H("h1", 1, 4, 11, h0 + pd + 11, pd + 11)
T2 = H("h1", 1, 4, 11, h0 + pd + 12, pd + 12)
T3 = H("h1", 1, 3, 11, h0 + pd + 13, pd + 13)
AL1 = H("h1", 3, 6, 11, h0 + pd + 10, pd + 10, decl=10, decl_len=-2)
AL2 = H("h1", 3, 5, 11, h0 + pd + 20, pd + 20, decl=10, decl_len=-2)
AL3 = H("h1", 3, 5, 11, h0 + pd + 20, pd + 20, decl=9, decl_len=-2)

def M(htlcs, hashes=("h1",), cfg=A, parts=1, pays=1, crash=0, clock=3, w=0, r=0, heights=(), pinned=(), direct=0, props=None, probes=0):
    return dict(props=props, probes=probes, cfg=dict(cfg), invs=scen.INVS, htlcs=list(htlcs), hashes=list(hashes), parts=parts, pays=pays,
                crash=crash, clock=clock, w=w, r=r, heights=list(heights), pinned=list(pinned), direct=direct)

MODELS = {
    # no crash: arrival orders, a rejecting HTLC at every position, timeouts
    "base_conf":   M([G1, G2, CONF], parts=2, clock=3),
    "base_exp":    M([G1, G2, LOWEXP], parts=1, clock=3, heights=(105, 125)),
    "base_tot":    M([G1, LOWTOT, G3], parts=1, clock=3),
    "base_amtless": M([AL1, AL2, AL3], parts=1, clock=3),
    "base_foreign": M([G1, G2, FOREIGN], hashes=("h1", "h2"), parts=1, clock=3),
    "base_zero":   M([Z1, Z2, ZLOW], cfg=Z, parts=1, clock=3),
    # staggered arrivals of a set that stays incomplete for a while (the MPP timeout runs from the first part)
    "base_thirds": M([T1, T2, T3], parts=1, clock=4),
    # one crash anywhere; every stored history
    "restart":     M([G1, G2], parts=2, crash=1, clock=4),
    # two successive fully funding sets: old lifecycle's tail vs new lifecycle
    "overlap":     M([G1, G2, G3], parts=1, pays=2, clock=3),
    # three successive fully funding sets / two sets and a crash: a third pay becomes possible
    "overlap3":    M([G3, dict(G3, exp=G3["exp"] + 1), dict(G3, exp=G3["exp"] + 2)], parts=1, pays=3, clock=1),
    "overlapc":    M([G3, dict(G3, exp=G3["exp"] + 1)], parts=1, pays=3, crash=1, clock=2),
    # single write fault at every position, with a crash
    "faults":      M([G1, G2], parts=1, crash=1, clock=3, w=1),
    # C09 on the design: crash / single write fault anywhere, then two probe sets to a cooperative recipient
    "wedge":       M([G1, G2, G3, dict(G3, exp=G3["exp"] + 1)], parts=1, crash=1, clock=3, w=1, probes=2),
    "pinned_d4w":  M([G1, G2, G3, dict(G3, exp=G3["exp"] + 1)], parts=1, crash=1, clock=3, w=1, probes=2, pinned=("D4",)),
    # read faults (known findings K1-K3 live here)
    "rfaults":     M([G1, G2], parts=1, crash=1, clock=3, r=1),
    # two hashes
    "twohash":     M([G3, B3], hashes=("h1", "h2"), parts=1, pays=2, clock=3),
    # direct calls of wait_payment / pay (C15, C16): parts left behind + every resolution order
    "provider":    M([], parts=3, pays=1, clock=0, direct=1, props="PC15 PC16"),
    "pinned_d5p":  M([], parts=2, pays=1, clock=0, direct=1, pinned=("D5",), props="PC15 PC16"),
    # pinned-code sanity: the defects repaired in /repo are violations of the model
    "pinned_d5":   M([G1, G2], parts=1, crash=0, clock=3, pinned=("D5",)),
    "pinned_d4":   M([G1, G2], parts=1, crash=1, clock=3, w=1, pinned=("D4",)),
    # beyond exhaustive reach: random walks (tlc -simulate) mined for schedules in the thorough tier
    "sim_big":     M([G1, G2, G3, CONF], parts=3, pays=3, crash=2, clock=6, w=2),
    "sim_two":     M([G1, G2, B1, B2], hashes=("h1", "h2"), parts=2, pays=3, crash=1, clock=5, w=1),
    # thorough
    "t_restart3":  M([G1, G2, G3], parts=2, crash=1, clock=4),
    "t_overlap2":  M([G1, G2, G3], parts=2, pays=2, clock=4),
    "t_faults2":   M([G1, G2], parts=2, crash=1, clock=4, w=1),
    "t_twohash2":  M([G1, G2, B3], hashes=("h1", "h2"), parts=2, pays=2, clock=3),
}

def put(path, text):
    """write only when the content changes, and atomically: setup regenerates the instances while other checks may be
    reading them"""
    try:
        if open(path).read() == text:
            return
    except FileNotFoundError:
        pass
    tmp = f"{path}.{os.getpid()}.tmp"
    open(tmp, "w").write(text)
    os.replace(tmp, path)

def tla_str(x):
    return '"' + x + '"'

def tla_val(v):
    if isinstance(v, bool):
        return "TRUE" if v else "FALSE"
    if isinstance(v, int):
        return str(v)
    if isinstance(v, str):
        return tla_str(v)
    if isinstance(v, (list, tuple)):
        return "<<" + ", ".join(tla_val(x) for x in v) + ">>"
    if isinstance(v, dict):
        return "[" + ", ".join(f"{k} |-> {tla_val(x)}" for k, x in v.items()) + "]"
    raise ValueError(v)

def shape(h):
    d = dict(hash=h["hash"], inv=h["inv"], amt=h["amt"], total=h.get("total", 0), exp=h["exp"], rel=h["rel"],
             decl=h.get("decl", 0), decl_len=h.get("decl_len", -1), fwd=h.get("fwd", False),
             fwdmsat=h.get("fwdmsat", True), meta=h.get("meta", "ok"))
    return d

def inv_rec(i):
    return dict(hash=i["hash"], amt=i.get("amt", 0), hint=i.get("hint", False),
                payee="p%d" % i.get("payee", 1), form=i.get("form", "ok"), zero=bool(i.get("zero", False)))

def write_model(name, m):
    cfg = dict(m["cfg"]); cfg.setdefault("selfhints", True)
    mod = f"MC_{name}"
    tla = f"""---- MODULE {mod} ----
(* GENERATED by bin/vf (vflib/models.py) - do not edit.  Instance `{name}` of Trampoline. *)
EXTENDS Trampoline, Classify, Json

CfgM == {tla_val({k: cfg[k] for k in ("base","ppm","pdelta","sdelta","mpp","h0","selfhints")})}
Invs == {tla_val([inv_rec(i) for i in m["invs"]])}
Shapes == {tla_val([shape(h) for h in m["htlcs"]]) if m["htlcs"] else "<<>>"}
InvAmtM == [k \\in 1..Len(Invs) |-> Invs[k].amt]
Mk(s) == LET cls == ClassOf(s, Invs, CfgM.selfhints)
             v == IF s.inv >= 1 /\\ s.inv <= Len(Invs) THEN Invs[s.inv] ELSE [hash |-> "", amt |-> 0] IN
  [hash |-> s.hash, cls |-> cls, key |-> IF cls = "tramp" THEN v.hash ELSE s.hash, inv |-> s.inv,
   A |-> IF cls = "tramp" THEN AmountOf(s, v) ELSE 0, amt |-> s.amt, total |-> s.total, exp |-> s.exp,
   rel |-> s.rel, ord |-> 0, fb |-> FALSE, st |-> "unsent", resp |-> NoResp]
CatM == [k \\in 1..Len(Shapes) |-> Mk(Shapes[k])]
HashesM == {{{", ".join(tla_str(h) for h in m["hashes"])}}}
HeightsM == {{{", ".join(str(x) for x in m["heights"])}}}
AnyHeight == 0..10000000
PinnedM == {{{", ".join(tla_str(x) for x in m["pinned"])}}}
ProbesM == {tla_val(list(range(len(m["htlcs"]) - m["probes"] + 1, len(m["htlcs"]) + 1))) if m["probes"] else "<<>>"}

\\* spec -> impl: the environment choices made so far, one schedule per explored edge
VARIABLE sched
SInit == Init /\\ sched = <<>>
SNext == Next /\\ sched' = Append(sched, last')
View == <<nodeView, plugVars>>
CONSTANT EmitRate   \\* print one schedule per EmitRate explored edges (1 = every edge)
EmitEdge == IF EmitRate = 1 \\/ RandomElement(1..EmitRate) = 1
            THEN PrintT(<<"SCHED", ToJson(sched')>>) ELSE TRUE
\\* focused sampling: only edges that lead INTO a region where lifecycles of one hash overlap or where a write is
\\* outstanding while a payment is live (where the orderings that matter for C02/C05/C08 live)
FocusOverlap == \\E h \\in Hashes : DOMAIN tails'[h] # {{}} /\\ (own'[h].pc # "none" \\/ LiveIn(parts', h))
FocusLive == \\E h \\in Hashes : LiveIn(parts', h) /\\ (own'[h].pc # "pay" \\/ own'[h].main.st = "executed")
EmitOverlap == IF FocusOverlap /\\ (EmitRate = 1 \\/ RandomElement(1..EmitRate) = 1)
               THEN PrintT(<<"SCHED", ToJson(sched')>>) ELSE TRUE
EmitLive == IF FocusLive /\\ (EmitRate = 1 \\/ RandomElement(1..EmitRate) = 1)
            THEN PrintT(<<"SCHED", ToJson(sched')>>) ELSE TRUE
\\* all three samples in one pass (used together with the property check of the same run)
CONSTANT FocusRate
EmitAll == IF \\/ EmitRate = 1 \\/ RandomElement(1..EmitRate) = 1
              \\/ (FocusRate > 0 /\\ (FocusOverlap \\/ FocusLive) /\\ RandomElement(1..FocusRate) = 1)
           THEN PrintT(<<"SCHED", ToJson(sched')>>) ELSE TRUE
====
"""
    os.makedirs(f"{SPEC}/mc", exist_ok=True)
    put(f"{SPEC}/mc/{mod}.tla", tla)
    consts = f"""CONSTANTS
  Hashes <- HashesM
  Cfg <- CfgM
  Cat <- CatM
  InvAmt <- InvAmtM
  MaxParts = {m['parts']}
  MaxPays = {m['pays']}
  MaxCrash = {m['crash']}
  MaxClock = {m['clock']}
  MaxW = {m['w']}
  MaxR = {m['r']}
  HeightSet <- HeightsM
  Direct = {m['direct']}
  Probes <- ProbesM
  Pinned <- PinnedM
  EmitRate = {{rate}}
  FocusRate = {{frate}}
INIT SInit
NEXT SNext
VIEW View
CHECK_DEADLOCK FALSE
"""
    m["_consts"] = consts
    put(f"{SPEC}/mc/{mod}.cfg", check_cfg(m, m["props"] or ALLPROPS))

ALLPROPS = "PC01 PC02 PC03 PC04 PC05 PC06 PC07 PC08 PC11 PC12 PC13 PC15 PC16 PAudit"

def consts_of(name):
    m = MODELS[name]
    if "_consts" not in m:
        write_model(name, m)
    return m["_consts"]

def check_cfg(m, props, rate=None, frate=0):
    """property check; with `rate` the same run also prints sampled edge schedules"""
    c = m["_consts"].format(rate=rate or 1, frate=frate) + f"INVARIANTS TypeOK C09design\nPROPERTIES {props}\n"
    if rate:
        c += "ACTION_CONSTRAINT EmitAll\n"
    return c

def emit_cfg(m, rate, focus="Edge"):
    return m["_consts"].format(rate=rate, frate=0) + f"ACTION_CONSTRAINT Emit{focus}\n"

def write_conform(name, m):
    """CF_<name>: the full Trampoline specification of instance <name>, driven by recorded traces (conformance)."""
    mod = f"CF_{name}"
    tla = f"""---- MODULE {mod} ----
(* GENERATED by bin/vf (vflib/models.py) - do not edit.
   White-box conformance: every line of a trace recorded from the real code (runs of scenario `{name}`) must be the
   corresponding action of Trampoline.tla, taken with the logged arguments, and must produce exactly the logged
   reaction (answers, issued calls, panics, returned values).  Variables the trace does not log (table, lifecycles,
   budgets) are inferred by TLC.  A line no action explains is DRIFT: the run is given up and reported. *)
EXTENDS MC_{name}, IOUtils, SequencesExt

Rec == ndJsonDeserialize(IOEnv.TRACE)
N == Len(Rec)
VARIABLES l, off,
          bind   \\* [trace call id -> [who, a, inv]] : which lifecycle issued the call (fixed when it is issued)
cvars == <<vars, sched, l, off, bind>>
Line == Rec[l]
Items(line, kind) == {{k \in 1..Len(line.out) : line.out[k].o = kind}}

KeyOfSpec(c) ==
  CASE c.kind = "listds" -> [kind |-> "listds", hash |-> c.hash]
    [] c.kind = "ds" -> [kind |-> "ds", hash |-> c.hash, key |-> c.key, a |-> c.a, mode |-> c.mode, gen |-> c.gen, val |-> c.val]
    [] c.kind = "lists" -> [kind |-> "lists", hash |-> c.hash, status |-> c.status]
    [] c.kind = "wait" -> [kind |-> "wait", hash |-> c.hash, part |-> c.part]
    [] c.kind = "pay" -> [kind |-> "pay", hash |-> c.hash, inv |-> c.inv, amount |-> c.amount, maxfee |-> c.maxfee, maxdelay |-> c.maxdelay]
    [] OTHER -> [kind |-> c.kind]
KeyOfLine(o) == KeyOfSpec(o)

CInit == SInit /\ l = 1 /\ off = TRUE /\ bind = <<>>

\\* the owner lifecycle of the call's hash has just issued a call with this content
IssuedByOwner(o) ==
  /\ o.hash \\in Hashes
  /\ \\E s \\in SlotsOf(own'[o.hash]) : s.st = "issued" /\ KeyOfSpec(s.c) = KeyOfLine(o)
  /\ ~\\E s \\in SlotsOf(own[o.hash]) : s.st = "issued" /\ KeyOfSpec(s.c) = KeyOfLine(o)
\* the tail record of hash h that has just issued a call with this content (a tail is identified by the attempt
\* and the invoice it works for; two tails equal in both are in the same state and interchangeable)
NewTails(h) == {{t \\in DOMAIN tails'[h] : t \\notin DOMAIN tails[h] \\/ tails'[h][t] > tails[h][t]}}
IdOfIssuer(o) ==
  IF IssuedByOwner(o) THEN [who |-> "own", a |-> 0, inv |-> 0, A |-> 0]
  ELSE IF o.hash \\in Hashes /\ \\E t \\in NewTails(o.hash) : t.main.st = "issued" /\ KeyOfSpec(t.main.c) = KeyOfLine(o)
       THEN LET t == CHOOSE t \\in NewTails(o.hash) : t.main.st = "issued" /\ KeyOfSpec(t.main.c) = KeyOfLine(o) IN
            [who |-> "tail", a |-> t.a, inv |-> t.inv, A |-> t.A]
       ELSE [who |-> "tail", a |-> -1, inv |-> -1, A |-> -1]
Bound == LET new == Items(Line, "issue") IN
         [id \\in (DOMAIN bind) \\cup {{Line.out[k].call : k \\in new}} |->
            IF \\E k \\in new : Line.out[k].call = id
            THEN IdOfIssuer(Line.out[CHOOSE k \\in new : Line.out[k].call = id])
            ELSE bind[id]]
\* does designator d of hash h denote the lifecycle that issued trace call `call`?
IsIssuer(h, d, call) ==
  IF call \\notin DOMAIN bind THEN d.who = "own"
  ELSE LET b == bind[call] IN
       /\ d.who = b.who
       /\ (b.who = "tail" /\ b.a # -1 => d.t.a = b.a /\ d.t.inv = b.inv /\ d.t.A = b.A)

ResetAll ==
  /\ NodeResetH(CfgM, [i \in DOMAIN CatM |-> CatM[i]])
  /\ table' = [h \in Hashes |-> NoEntry]
  /\ own' = [h \in Hashes |-> NoLc]
  /\ tails' = [h \in Hashes |-> NoTails]
  /\ nextAtt' = 1
  /\ lastAns' = {{}}
  /\ budget' = [pays |-> MaxPays, crashes |-> MaxCrash, w |-> MaxW, r |-> MaxR, direct |-> Direct, phase |-> "run"]

\* the reaction the specification computed equals the reaction the real code showed
Same ==
  /\ {{KeyOfSpec(c) : c \in iss'}} = {{KeyOfLine(Line.out[k]) : k \in Items(Line, "issue")}}
  /\ {{i \in DOMAIN htlc' : AnsweredNow(i)}} = {{Line.out[k].i : k \in Items(Line, "answer")}}
  /\ \A k \in Items(Line, "answer") :
        htlc'[Line.out[k].i].resp = [r |-> Line.out[k].r, key |-> Line.out[k].key, code |-> Line.out[k].code]
  /\ panics' - panics = Cardinality(Items(Line, "panic"))
  /\ rets' = {{[fn |-> Line.out[k].fn, hash |-> Line.out[k].hash, r |-> Line.out[k].r, key |-> Line.out[k].key] : k \in Items(Line, "ret")}}

Explain ==
  \/ /\ Line.ev = "htlc" /\ Line.i \in HtlcIds /\ Arrive(Line.i)
  \/ /\ Line.ev = "exec"
     /\ \E h \in Hashes : \E d \in Desigs(h) :
          /\ IsIssuer(h, d, Line.call)
          /\ SlotRec(h, d).st = "issued" /\ KeyOfSpec(SlotRec(h, d).c) = KeyOfLine(Line)
          /\ Exec(h, d, Line.fault)
  \/ /\ Line.ev = "deliver"
     /\ \E h \in Hashes : \E d \in Desigs(h) :
          /\ IsIssuer(h, d, Line.call)
          /\ SlotRec(h, d).st = "executed" /\ KeyOfSpec(SlotRec(h, d).c) = KeyOfLine(Line)
          /\ Deliver(h, d)
  \/ /\ Line.ev = "paypart" /\ (PayPart(Line.hash) \/ MkPart(Line.hash))
  \/ /\ Line.ev = "partdone" /\ PartDone(Line.part, Line.how, Line.code)
  \/ /\ Line.ev = "payreturn" /\ PayReturn(Line.hash, Line.outcome)
  \/ /\ Line.ev = "tick" /\ Tick
  \/ /\ Line.ev = "phase" /\ StartProbe
  \/ /\ Line.ev = "height" /\ Height(Line.h)
  \/ /\ Line.ev = "crash" /\ \E lose \in BOOLEAN : Crash(lose) /\ ToSet(Line.lost) = (IF lose THEN lastAns ELSE {{}})
  \/ /\ Line.ev = "wpcall" /\ CallWp(Line.hash)
  \/ /\ Line.ev = "paycall" /\ CallPay(Line.hash)

Tags == {{"tlc:{name}", "rnd:{name}"}}

CNext ==
  /\ l <= N /\ l' = l + 1 /\ UNCHANGED sched
  /\ IF Line.ev = "reset"
     THEN ResetAll /\ off' = ~(Line.tag \\in Tags) /\ bind' = <<>>
     ELSE IF off \\/ Line.ev \\in {{"drained", "end"}}
     THEN UNCHANGED <<vars, off, bind>>
     ELSE IF Line.ev = "probe"
     THEN off' = TRUE /\ UNCHANGED <<vars, bind>>   \\* probe HTLCs are not part of this instance's catalogue
     ELSE IF budget.phase = "probe" /\ ((Line.ev = "payreturn" /\ Line.outcome # "complete") \/ (Line.ev = "partdone" /\ Line.how # "complete"))
     THEN off' = TRUE /\ UNCHANGED <<vars, bind>>   \\* the instance's probe phase assumes a cooperative recipient: not this run
     ELSE IF ENABLED (Explain /\ Same)
     THEN Explain /\ Same /\ bind' = Bound /\ UNCHANGED off
     ELSE /\ PrintT(<<"DRIFT", l, Line.ev>>)
          /\ off' = TRUE /\ UNCHANGED <<vars, bind>>
CSpec == CInit /\ [][CNext]_cvars
CAccepted ==
  IF TLCGet("stats").diameter - 1 = N THEN TRUE
  ELSE PrintT(<<"CSTUCK", TLCGet("stats").diameter, N>>) /\ FALSE
====
"""
    put(f"{SPEC}/mc/{mod}.tla", tla)
    cfg = m["_consts"].format(rate=1, frate=0)
    import re
    for k, v in (("MaxParts", 60), ("MaxPays", 60), ("MaxCrash", 60), ("MaxClock", 1000000), ("MaxW", 60), ("MaxR", 60), ("Direct", 60)):
        cfg = re.sub(rf"  {k} = \d+", f"  {k} = {v}", cfg)
    cfg = cfg.replace("HeightSet <- HeightsM", "HeightSet <- AnyHeight")
    cfg = cfg.replace("INIT SInit\nNEXT SNext\nVIEW View\n", "SPECIFICATION CSpec\nPOSTCONDITION CAccepted\n")
    put(f"{SPEC}/mc/{mod}.cfg", cfg)

def write_live(name, m, frozen=None):
    """ML_<name>: liveness of instance <name> under weak fairness of the environment (C06), or with the environment
    of hash `frozen` stopped for ever and fairness only for the other hashes (C14)."""
    mod = f"ML_{name}"
    cfg = dict(m["cfg"]); cfg.setdefault("selfhints", True)
    fair_h = [h for h in m["hashes"] if h != frozen]
    tla = f"""---- MODULE {mod} ----
(* GENERATED by bin/vf (vflib/models.py) - do not edit.  Liveness of instance `{name}`:
   every HTLC delivered to the plugin is eventually answered, provided the node keeps executing and answering
   the plugin's RPCs, pay commands return, parts resolve and time passes (weak fairness of those environment
   steps{"; hash " + frozen + " gets NO fairness: its environment may stop for ever (C14)" if frozen else ""}).  No crash, no fault. *)
EXTENDS Trampoline, Classify

CfgM == {tla_val({k: cfg[k] for k in ("base","ppm","pdelta","sdelta","mpp","h0","selfhints")})}
Invs == {tla_val([inv_rec(i) for i in m["invs"]])}
Shapes == {tla_val([shape(h) for h in m["htlcs"]])}
InvAmtM == [k \in 1..Len(Invs) |-> Invs[k].amt]
Mk(s) == LET cls == ClassOf(s, Invs, CfgM.selfhints)
             v == IF s.inv >= 1 /\ s.inv <= Len(Invs) THEN Invs[s.inv] ELSE [hash |-> "", amt |-> 0] IN
  [hash |-> s.hash, cls |-> cls, key |-> IF cls = "tramp" THEN v.hash ELSE s.hash, inv |-> s.inv,
   A |-> IF cls = "tramp" THEN AmountOf(s, v) ELSE 0, amt |-> s.amt, total |-> s.total, exp |-> s.exp,
   rel |-> s.rel, ord |-> 0, fb |-> FALSE, st |-> "unsent", resp |-> NoResp]
CatM == [k \in 1..Len(Shapes) |-> Mk(Shapes[k])]
HashesM == {{{", ".join(tla_str(h) for h in m["hashes"])}}}
FairHashes == {{{", ".join(tla_str(h) for h in fair_h)}}}
NoProbes == <<>>

\* time only passes while somebody waits for it (keeps the clock finite without a bound that would cut a wait short)
TickL == (\E h \in Hashes : own[h].pc = "select") /\ Tick
EnvOf(h) ==
  \/ \E d \in Desigs(h) : Exec(h, d, "none") \/ Deliver(h, d)
  \/ \E o \in PayOutcomes : PayReturn(h, o)
  \/ \E p \in PartIds : parts[p].hash = h /\ (PartDone(p, "complete", 0) \/ PartDone(p, "failed", 203))
NextL ==
  \/ \E i \in HtlcIds : Arrive(i)
  \/ \E h \in Hashes : EnvOf(h) \/ PayPart(h)
  \/ TickL
LSpec == Init /\ [][NextL]_vars /\ WF_vars(TickL) /\ \A h \in FairHashes : WF_vars(EnvOf(h))

Answered == \A i \in HtlcIds : htlc[i].hash \in FairHashes =>
               ((htlc[i].st = "held") ~> (htlc[i].st = "answered"))
====
"""
    put(f"{SPEC}/mc/{mod}.tla", tla)
    cfgt = f"""CONSTANTS
  Hashes <- HashesM
  Cfg <- CfgM
  Cat <- CatM
  InvAmt <- InvAmtM
  MaxParts = {m['parts']}
  MaxPays = {m['pays']}
  MaxCrash = 0
  MaxClock = 1000
  MaxW = 0
  MaxR = 0
  HeightSet = {{}}
  Direct = 0
  Probes <- NoProbes
  Pinned = {{}}
SPECIFICATION LSpec
PROPERTY Answered
CHECK_DEADLOCK FALSE
"""
    put(f"{SPEC}/mc/{mod}.cfg", cfgt)

def scenario(name):
    m = MODELS[name]
    cfg = dict(m["cfg"])
    return {"cfg": cfg, "invs": m["invs"], "htlcs": m["htlcs"],
            "probe": [dict(scen.PROBE[0], exp=cfg["h0"] + cfg["pdelta"] + 50, rel=cfg["pdelta"] + 50)]}

def write_all():
    for n, m in MODELS.items():
        write_model(n, m)
        if not n.startswith("pinned") and not n.startswith("t_") and not n.startswith("sim_"):
            write_conform(n, m)
    # liveness instances: C06 (everything fair) and C14 (hash h1 frozen, h2 must still be answered)
    write_live("live", M([G1, G2, CONF], parts=1, pays=1))
    write_live("iso", M([G3, B3], hashes=("h1", "h2"), parts=1, pays=2), frozen="h1")

if __name__ == "__main__":
    write_all()
