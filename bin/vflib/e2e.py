"""Engine C: the real `trampoline` binary end to end.  This module plays lightningd:
stdin/stdout pipes (getmanifest, init with options, htlc_accepted calls, block_added
notifications, arbitrary write chunking) and a unix-socket JSON-RPC server backed by a
small in-memory node.  Real time; used for C17 (stdout framing under logging), C19
(startup options) and the wire half of C06."""
import json, os, socket, subprocess, threading, time, tempfile, shutil, random, hashlib, select
from . import run

# root of this verification tree (normally /verif; a snapshot under /root/.vp/runs/<n>/verif for `vp run`)
VERIF = os.path.dirname(os.path.dirname(os.path.dirname(os.path.realpath(__file__))))
E2E_DIR = VERIF + "/target/e2e" + run.TAG
BIN = E2E_DIR + "/debug/trampoline"

def build():
    env = dict(os.environ, CARGO_NET_OFFLINE="true")
    for k in ("CARGO_TARGET_DIR", "CARGO_BUILD_TARGET_DIR", "RUSTFLAGS", "CARGO_ENCODED_RUSTFLAGS"):
        env.pop(k, None)
    p = subprocess.run(["cargo", "build", "--offline", "--manifest-path", run.REPO + "/Cargo.toml", "--target-dir", E2E_DIR],
                       env=env, capture_output=True, text=True)
    if p.returncode != 0:
        raise run.ToolError("the plugin does not build:\n" + p.stderr[-3000:])

class FakeNode:
    """JSON-RPC over a unix socket: one request per connection, framed by a blank line."""
    def __init__(self, path, height=100, node_id="0279be667ef9dcbbac55a06295ce870b07029bfcdb2dce28d959f2815b16f81798"):
        self.path = path
        self.height = height
        self.node_id = node_id
        self.store = {}
        self.calls = []          # (method, params)
        self.pay_mode = "fail"   # "fail" | "complete:<preimage hex>"
        self.parts = []          # sendpay parts as listsendpays reports them
        self.release = threading.Event()
        self.lock = threading.Lock()
        self.sock = socket.socket(socket.AF_UNIX, socket.SOCK_STREAM)
        self.sock.bind(path)
        self.sock.listen(64)
        self.stop = False
        self.t = threading.Thread(target=self.loop, daemon=True)
        self.t.start()

    def loop(self):
        self.sock.settimeout(0.2)
        while not self.stop:
            try:
                c, _ = self.sock.accept()
            except socket.timeout:
                continue
            except OSError:
                return
            threading.Thread(target=self.serve, args=(c,), daemon=True).start()

    def serve(self, c):
        buf = b""
        c.settimeout(5)
        try:
            while True:
                # requests are complete JSON documents; cln-rpc terminates them with a blank line
                d = c.recv(65536)
                if not d:
                    return
                buf += d
                while True:
                    try:
                        req, end = json.JSONDecoder().raw_decode(buf.decode("utf-8").lstrip())
                    except Exception:
                        break
                    skip = len(buf.decode("utf-8")) - len(buf.decode("utf-8").lstrip())
                    buf = buf.decode("utf-8")[skip + end:].encode("utf-8")
                    resp = self.handle(req)
                    if resp is None:
                        return    # the reply is lost: the connection is closed without an answer
                    c.sendall((json.dumps(resp) + "\n\n").encode())
        except Exception:
            pass
        finally:
            c.close()

    def handle(self, req):
        m = req.get("method"); p = req.get("params", {})
        with self.lock:
            self.calls.append((m, p))
        def ok(r):
            return {"jsonrpc": "2.0", "id": req.get("id"), "result": r}
        def err(code, msg):
            return {"jsonrpc": "2.0", "id": req.get("id"), "error": {"code": code, "message": msg}}
        if m == "getinfo":
            return ok({"id": self.node_id, "alias": "fake", "color": "000000", "num_peers": 0, "num_pending_channels": 0,
                       "num_active_channels": 0, "num_inactive_channels": 0, "version": "v24.05", "blockheight": self.height,
                       "network": "regtest", "fees_collected_msat": 0, "lightning-dir": "/tmp/l", "address": [], "binding": []})
        if m == "listdatastore":
            k = tuple(p.get("key") or [])
            with self.lock:
                if k in self.store:
                    s, g = self.store[k]
                    return ok({"datastore": [{"key": list(k), "generation": g, "string": s}]})
            return ok({"datastore": []})
        if m == "datastore":
            k = tuple(p.get("key")); mode = p.get("mode", "must-create"); gen = p.get("generation")
            with self.lock:
                cur = self.store.get(k)
                if mode == "must-create" and cur is not None:
                    return err(1202, "already exists")
                if mode == "must-replace" and cur is None:
                    return err(1203, "does not exist")
                if gen is not None and (cur is None or cur[1] != gen):
                    return err(1204, "generation")
                g = 0 if cur is None else cur[1] + 1
                self.store[k] = (p.get("string"), g)
            return ok({"key": list(k), "generation": g, "string": p.get("string")})
        if m == "listsendpays":
            with self.lock:
                ps = [{k: v for k, v in x.items() if not k.startswith("_")} for x in self.parts
                      if x["payment_hash"] == p.get("payment_hash") and (p.get("status") in (None, x["status"]))]
            return ok({"payments": ps})
        if m == "pay":
            if self.pay_mode == "lost-then-fail":
                # the first pay request is received (the node acts on it) but its reply never reaches the plugin
                with self.lock:
                    n = len([c for c in self.calls if c[0] == "pay"])
                return None if n == 1 else err(210, "Ran out of routes to try")
            if self.pay_mode.startswith("complete:"):
                pre = self.pay_mode.split(":")[1]
                return ok({"destination": "02c6047f9441ed7d6d3045406e95c07cd85c778e4b8cef3ca7abac09b95c709ee5", "payment_hash": hashlib.sha256(bytes.fromhex(pre)).hexdigest(),
                           "created_at": 1.0, "parts": 1, "amount_msat": 1, "amount_sent_msat": 1, "payment_preimage": pre,
                           "status": "complete"})
            return err(210, "Ran out of routes to try")
        if m == "waitsendpay":
            with self.lock:
                known = [x for x in self.parts if x["payment_hash"] == p.get("payment_hash") and x.get("partid") == p.get("partid")]
            if known and known[0]["status"] == "pending" and "_fate" in known[0]:
                # the part resolves after a delay: ("code", n, seconds) or ("complete", preimage hex, seconds)
                kind, val, delay = known[0]["_fate"]
                time.sleep(delay)
                if kind == "code":
                    with self.lock:
                        known[0]["status"] = "failed"
                    return err(val, "part failed")
                with self.lock:
                    known[0]["status"] = "complete"; known[0]["payment_preimage"] = val
                return ok({k: v for k, v in known[0].items() if not k.startswith("_")})
            if known and known[0]["status"] == "pending":
                # a part that stays in flight: the call does not return (until the test ends)
                self.release.wait(30)
                return err(204, "part failed")
            return err(208, "never attempted")
        return err(-32601, "unknown method")

    def close(self):
        self.stop = True
        self.release.set()
        try:
            self.sock.close()
        except Exception:
            pass

class Plugin:
    def __init__(self, options=None, log=None, height=100):
        self.dir = tempfile.mkdtemp(prefix="vfe2e", dir=VERIF + "/work")
        self.node = FakeNode(self.dir + "/rpc", height=height)
        env = dict(os.environ)
        env.pop("RUST_LOG", None)
        if log:
            env["CLN_PLUGIN_LOG"] = log
        self.p = subprocess.Popen([BIN], stdin=subprocess.PIPE, stdout=subprocess.PIPE, stderr=subprocess.DEVNULL, env=env, cwd=self.dir)
        self.out = b""
        self.options = options or {}
        self.nextid = 1

    def send_raw(self, b):
        try:
            self.p.stdin.write(b); self.p.stdin.flush()
            return True
        except (BrokenPipeError, OSError):
            return False

    def send(self, obj, chunks=None):
        b = (json.dumps(obj) + "\n\n").encode()
        if not chunks:
            return self.send_raw(b)
        pos = 0
        for c in chunks:
            if pos >= len(b):
                break
            if not self.send_raw(b[pos:pos + c]):
                return False
            pos += c
            time.sleep(0.001)
        if pos < len(b):
            return self.send_raw(b[pos:])
        return True

    def read_frames(self, until=None, timeout=3.0):
        """read stdout until `until(frames)` is true or timeout; returns list of (ok, obj)"""
        end = time.time() + timeout
        while time.time() < end:
            frames = self.frames()
            if until and until(frames):
                return frames
            r, _, _ = select.select([self.p.stdout], [], [], 0.05)
            if r:
                d = os.read(self.p.stdout.fileno(), 65536)
                if not d:
                    break
                self.out += d
        return self.frames()

    def frames(self):
        parts = self.out.split(b"\n\n")
        res = []
        for x in parts[:-1]:
            try:
                res.append((True, json.loads(x.decode("utf-8"))))
            except Exception:
                res.append((False, x[:200].decode("latin1")))
        return res

    def leftover(self):
        return len(self.out.split(b"\n\n")[-1])

    def storm(self, reqs, marker, timeout):
        """send many requests as fast as the pipe takes them (writer thread) while reading the output; returns once the
        marker (the constant prefix of their ids as it appears in a reply) was seen len(reqs) times or after `timeout`"""
        data = b"".join((json.dumps(q) + "\n\n").encode() for q in reqs)
        th = threading.Thread(target=self.send_raw, args=(data,), daemon=True)
        th.start()
        end = time.time() + timeout
        seen = 0; tail = b""
        while time.time() < end and seen < len(reqs):
            r, _, _ = select.select([self.p.stdout], [], [], 0.05)
            if r:
                d = os.read(self.p.stdout.fileno(), 1 << 20)
                if not d:
                    break
                self.out += d
                blk = tail + d
                seen += blk.count(marker)
                tail = blk[-(len(marker) - 1):] if len(marker) > 1 else b""
                # (a marker cut in two by a read is counted with the next block; one wholly inside `tail` cannot exist)
        return self.frames()

    def handshake(self, timeout=5.0):
        """returns "ok" | "refused" (process exited / no init reply)"""
        self.send({"jsonrpc": "2.0", "id": "gm", "method": "getmanifest", "params": {"allow-deprecated-apis": False}})
        fr = self.read_frames(lambda f: any(ok and o.get("id") == "gm" for ok, o in f), timeout)
        self.manifest = next((o for ok, o in fr if ok and o.get("id") == "gm"), None)
        if self.manifest is None:
            return "nomanifest"
        self.send({"jsonrpc": "2.0", "id": "init", "method": "init", "params": {"options": self.options, "configuration": {
            "lightning-dir": self.dir, "rpc-file": "rpc", "startup": True, "network": "regtest",
            "feature_set": {"init": "", "node": "", "channel": "", "invoice": ""}}}})
        end = time.time() + timeout
        while time.time() < end:
            fr = self.read_frames(lambda f: any(ok and o.get("id") == "init" for ok, o in f), 0.2)
            if any(ok and o.get("id") == "init" for ok, o in fr):
                return "ok"
            if self.p.poll() is not None:
                return "refused"
        return "refused" if self.p.poll() is not None else "hung"

    def close(self):
        try:
            self.p.kill()
            self.p.wait(timeout=2)
        except Exception:
            pass
        self.node.close()
        shutil.rmtree(self.dir, ignore_errors=True)

def htlc_request(rid, payload_hex, amount=1000, cltv=500, rel=400, fwd=None, total=None, hash_hex="00" * 32, htlc_id=0):
    onion = {"payload": payload_hex, "type": "tlv", "shared_secret": "00" * 32, "next_onion": "", "outgoing_cltv_value": cltv}
    if fwd:
        onion["short_channel_id"] = "1x2x3"
    if amount is not None:
        onion["forward_msat"] = amount
    if total is not None:
        onion["total_msat"] = total
    return {"jsonrpc": "2.0", "id": rid, "method": "htlc_accepted",
            "params": {"onion": onion, "htlc": {"short_channel_id": "4x5x6", "id": htlc_id, "amount_msat": amount or 0,
                                                "cltv_expiry": cltv, "cltv_expiry_relative": rel, "payment_hash": hash_hex}}}

def wire_check(seed, tier, wd):
    """C17 on the real binary: many htlc_accepted requests (pass-through payloads) written in random chunks with
    trace logging enabled; every stdout frame must be a JSON document and each request id answered exactly once."""
    build()
    rng = random.Random(seed)
    nruns = 6 if tier == "thorough" else 2
    nreq = 60 if tier == "thorough" else 25
    viol = []
    frames_total = 0
    lines = []
    for r in range(nruns):
        pl = Plugin(log="trace")
        try:
            st = pl.handshake()
            if st != "ok":
                raise run.ToolError(f"real binary did not complete the handshake ({st})")
            ids = []
            for k in range(nreq):
                rid = rng.choice([k + 1, "r%d" % k])
                ids.append(rid)
                # pass-through payloads, well-formed and not (truncated prefixes, over-stated lengths, a few bytes only)
                payload = rng.choice(["", "0a0203e8040101", "120203e80401011000", "fd", "fe0000", "0501ff", "05fd00", "ff"])
                chunks = [rng.choice([1, 2, 3, 7, 50, 400]) for _ in range(rng.randint(0, 40))]
                pl.send(htlc_request(rid, payload, htlc_id=k), chunks)
                if rng.random() < 0.3:
                    pl.send({"jsonrpc": "2.0", "method": "block_added", "params": {"block_added": {"hash": "00", "height": 100 + k}}})
            fr = pl.read_frames(lambda f: sum(1 for ok, o in f if ok and "id" in o and o["id"] in ids) >= len(ids), 10.0)
            frames_total += len(fr)
            rec = {"ev": "e2e", "run": r + 1, "sent": [json.dumps(i) for i in ids], "leftover": pl.leftover(),
                   "frames": [{"json": ok, "id": json.dumps(o.get("id")) if ok and "id" in o else "none",
                               "kind": ("result" if ok and "result" in o else "error" if ok and "error" in o else "notification" if ok and "method" in o else "garbage"),
                               "result": (o.get("result", {}).get("result", "") if ok and isinstance(o.get("result"), dict) else "")}
                              for ok, o in fr]}
            lines.append(rec)
        finally:
            pl.close()
    tf = wd + "/e2e_wire.ndjson"
    with open(tf, "w") as f:
        for l in lines:
            f.write(json.dumps(l) + "\n")
    rc, out = run.tlc_trace("E2eTrace.tla", "E2eTrace.cfg", tf, wd + "/e2et")
    if "No error has been found" not in out:
        raise run.ToolError("E2eTrace failed:\n" + out[-2000:])
    for runno, text in run.tagged(out, "E2EVIOL"):
        viol.append((0, text))
    return {"runs": nruns, "frames": frames_total, "violations": viol}

# ---------------------------------------------------------------------------------------------------
# C19: startup options

OPT = {"sdelta": "trampoline-cltv-delta", "pdelta": "trampoline-policy-cltv-delta", "base": "trampoline-policy-fee-base",
       "ppm": "trampoline-policy-fee-per-satoshi", "mpp": "trampoline-mpp-timeout", "paytimeout": "trampoline-payment-timeout",
       "nohints": "trampoline-no-self-route-hints", "xpay": "trampoline-xpay"}
DEFAULTS = {"sdelta": 34, "pdelta": 1008, "base": 0, "ppm": 5000, "mpp": 60, "paytimeout": 60, "nohints": False, "xpay": False}
VALUES = [-1, 0, 1, 33, 34, 35, 1007, 1008, 65535, 65536, 2**32 - 1, 2**32, 2**63 - 1]

def digits(n):
    v = []
    while n > 0:
        v.append(n % 10000); n //= 10000
    return v

def bn(v):
    return {"neg": v < 0, "d": digits(abs(v))}

def templates():
    """request templates with real signed invoices, built by the Rust harness"""
    A = 1000
    scen = {"cfg": {"base": 0, "ppm": 0, "pdelta": 40, "sdelta": 10, "mpp": 60},
            "invs": [{"hash": "h1", "amt": A}, {"hash": "h2", "amt": A, "hint": True}, {"hash": "h3", "amt": A}],
            "htlcs": [{"hash": "h1", "inv": 1, "amt": A, "total": A, "exp": 1000, "rel": 500},
                      {"hash": "h2", "inv": 2, "amt": A, "total": A, "exp": 1000, "rel": 500},
                      {"hash": "h3", "inv": 3, "amt": A, "total": A, "exp": 1000, "rel": 500}], "probe": []}
    p = VERIF + "/work/e2e_scen" + run.TAG + ".json"
    json.dump(scen, open(p, "w"))
    out = subprocess.run([run.VFH, "mkreq", p], capture_output=True, text=True)
    if out.returncode != 0:
        raise run.ToolError("vfh mkreq failed: " + out.stderr[-1000:])
    r = json.loads(out.stdout)
    return {"A": A, "local": r["local"], "ok": r["reqs"][0], "hint": r["reqs"][1], "other": r["reqs"][2], "preimages": r["preimages"]}

def crowd_templates(n):
    """request templates for n payments of n distinct hashes (h7, h8, ...: hashes only this scenario uses)"""
    A = 1000
    scen = {"cfg": {"base": 0, "ppm": 0, "pdelta": 40, "sdelta": 10, "mpp": 60},
            "invs": [{"hash": "h%d" % (7 + k), "amt": A} for k in range(n)],
            "htlcs": [{"hash": "h%d" % (7 + k), "inv": k + 1, "amt": A, "total": A, "exp": 1000, "rel": 500} for k in range(n)], "probe": []}
    p = VERIF + "/work/e2e_crowd" + run.TAG + ".json"
    json.dump(scen, open(p, "w"))
    out = subprocess.run([run.VFH, "mkreq", p], capture_output=True, text=True)
    if out.returncode != 0:
        raise run.ToolError("vfh mkreq failed: " + out.stderr[-1000:])
    reqs = json.loads(out.stdout)["reqs"]
    if len(set(q["htlc"]["payment_hash"] for q in reqs)) != n:
        raise run.ToolError("crowd templates: hashes not distinct")
    return reqs

def patched(tmpl, rid, htlc_id, amount, total, exp, rel):
    q = json.loads(json.dumps(tmpl))
    q["htlc"]["id"] = htlc_id; q["htlc"]["amount_msat"] = amount; q["htlc"]["cltv_expiry"] = exp; q["htlc"]["cltv_expiry_relative"] = rel
    q["onion"]["forward_msat"] = amount; q["onion"]["total_msat"] = total; q["onion"]["outgoing_cltv_value"] = exp
    if htlc_id % 2 == 1:
        # members this plugin does not know (later lightningd versions add some, e.g. extra_tlvs): to be ignored
        q["htlc"]["extra_tlvs"] = "fe0001000101"
        q["onion"]["next_member"] = {"n": 1}
        q["peer_note"] = "x"
    return {"jsonrpc": "2.0", "id": rid, "method": "htlc_accepted", "params": q}

def answer_of(pl, rid, timeout):
    fr = pl.read_frames(lambda f: any(ok and o.get("id") == rid for ok, o in f), timeout)
    for ok, o in fr:
        if ok and o.get("id") == rid:
            return o
    return None

def one_config(runno, opts, T, timed):
    height = 1000
    options = {OPT[k]: v for k, v in opts.items()}
    pl = Plugin(options=options, height=height)
    pl.node.node_id = T["local"]
    rec = {"ev": "cfg", "run": runno, "opts": {k: (bn(v) if k not in ("nohints", "xpay") else v) for k, v in opts.items()},
           "raw": {k: str(v) for k, v in opts.items()}, "started": False, "feebytes": [], "hint": "na", "mppclass": "na",
           "pay": {"retry": [], "delay_far": [], "delay_near": [], "delay_mid": [], "label": False, "risk": False},
           "near_gap": [], "near_expected": [], "mid_gap": [], "mid_expected": [], "mid_probed": False}
    try:
        st = pl.handshake()
        if st == "hung":
            rec["started"] = True; rec["feebytes"] = [-1]
            return rec
        rec["started"] = st == "ok"
        if st != "ok":
            return rec
        A = T["A"]
        base, ppm, pd, sd = opts["base"], opts["ppm"], opts["pdelta"], opts["sdelta"]
        need = A + base + A * ppm // 10**6
        # a. declared total too low -> fee failure carrying the advertised policy
        pl.send(patched(T["ok"], "a", 1, A - 1, A - 1, height + 70000, 70000))
        o = answer_of(pl, "a", 20.0)
        if o and isinstance(o.get("result"), dict) and o["result"].get("result") == "fail":
            rec["feebytes"] = list(bytes.fromhex(o["result"]["failure_message"]))
        def quiesce():
            # let the previous lifecycle finish its bookkeeping (state back to Free), otherwise the next set may be
            # answered temporary_node_failure by the race between the old and the new lifecycle's mark_failed
            end = time.time() + 2.0
            while time.time() < end:
                with pl.node.lock:
                    vals = [v[0] for k, v in pl.node.store.items() if k[-1] == "state"]
                if all(v == '"Free"' for v in vals):
                    time.sleep(0.02)
                    return
                time.sleep(0.01)
        def funded(rid, hid, exp):
            quiesce()
            n0 = len([c for c in pl.node.calls if c[0] == "pay"])
            pl.send(patched(T["ok"], rid, hid, need, need, exp, 70000))
            answer_of(pl, rid, 20.0)
            pays = [c for c in pl.node.calls if c[0] == "pay"]
            return pays[n0][1] if len(pays) > n0 else None
        # b. far expiry: the policy delta caps the route delay
        p1 = funded("b", 2, height + sd + pd + 1000)
        if p1:
            rec["pay"]["retry"] = digits(p1.get("retry_for", 0)); rec["pay"]["delay_far"] = digits(p1.get("maxdelay", 0))
            rec["pay"]["label"] = "label" in p1 and p1["label"] is not None
            rec["pay"]["risk"] = "riskfactor" in p1 and p1["riskfactor"] is not None
        # c. near expiry: expiry - height - safety delta
        near = min(pd - 1, 5)
        p2 = funded("c", 3, height + sd + near)
        rec["near_gap"] = digits(sd + near); rec["near_expected"] = digits(near)
        if p2:
            rec["pay"]["delay_near"] = digits(p2.get("maxdelay", 0))
        else:
            rec["pay"]["delay_near"] = [-1]
        # c2. expiry just above the policy delta: the safety delta still comes off (expiry - height - safety delta is
        #     below the policy delta there)
        if 1 <= sd <= pd + 1:
            p3 = funded("c2", 6, height + pd + 1)
            rec["mid_probed"] = True
            rec["mid_gap"] = digits(pd + 1); rec["mid_expected"] = digits(pd + 1 - sd)
            rec["pay"]["delay_mid"] = digits(p3.get("maxdelay", 0)) if p3 else [-1]
        # d. invoice routed through ourselves
        quiesce()
        n0 = len([c for c in pl.node.calls if c[0] == "pay"])
        pl.send(patched(T["hint"], "d", 4, need, need, height + sd + pd + 1000, 70000))
        o = answer_of(pl, "d", 20.0)
        paid = len([c for c in pl.node.calls if c[0] == "pay"]) > n0
        if paid:
            rec["hint"] = "held"
        elif o and isinstance(o.get("result"), dict) and o["result"].get("failure_message") == "2002":
            rec["hint"] = "failnode"
        else:
            rec["hint"] = "other"
        # e. MPP timeout of a set that never completes
        if timed:
            mpp = opts["mpp"]
            quiesce()
            t0 = time.time()
            pl.send(patched(T["ok"], "e", 5, need - 1, need, height + sd + pd + 1000, 70000))
            wait = (mpp + 3.5) if mpp <= 2 else 2.5
            o = answer_of(pl, "e", wait)
            dt = time.time() - t0
            if mpp <= 2:
                rec["mppclass"] = "late" if o is None else ("early" if dt < mpp - 0.2 else "ontime" if dt <= mpp + 3.0 else "late")
            else:
                rec["mppclass"] = "na" if o is None else "early"
        return rec
    finally:
        pl.close()

def config_vectors(seed, tier):
    rng = random.Random(seed)
    vs = []
    keys = ["sdelta", "pdelta", "base", "ppm", "mpp", "paytimeout"]
    def mk(**kw):
        d = dict(DEFAULTS); d.update(kw); return d
    vs.append(mk())
    # every value of every option alone, the others at a valid baseline
    for k in keys:
        for v in VALUES:
            if k == "mpp" and v > 2:
                pass
            vs.append(mk(**{k: v}))
    # swapped / equal deltas and their neighbours
    for (s, p) in [(34, 34), (35, 34), (33, 34), (0, 1), (0, 0), (1, 0), (65534, 65535), (65535, 65535), (65535, 65536), (1008, 34), (1007, 1008)]:
        vs.append(mk(sdelta=s, pdelta=p))
    for nh in (True, False):
        for xp in (True, False):
            vs.append(mk(nohints=nh, xpay=xp, base=rng.choice([1, 1000]), ppm=rng.choice([0, 10000]), mpp=rng.choice([0, 1, 2])))
    n = 400 if tier == "thorough" else 40
    for _ in range(n):
        vs.append(mk(**{k: rng.choice(VALUES) for k in keys}, nohints=rng.random() < 0.5, xpay=rng.random() < 0.5))
    if tier == "thorough":
        for s in VALUES:
            for p in VALUES:
                vs.append(mk(sdelta=s, pdelta=p))
    return vs

def config_check(seed, tier, wd):
    build()
    T = templates()
    vs = config_vectors(seed, tier)
    from concurrent.futures import ThreadPoolExecutor
    def job(kv):
        k, v = kv
        timed = v["mpp"] in (0, 1, 2) or k % 9 == 0
        return one_config(k + 1, v, T, timed)
    with ThreadPoolExecutor(max_workers=10) as ex:
        recs = list(ex.map(job, enumerate(vs)))
    tf = wd + "/cfg.ndjson"
    with open(tf, "w") as f:
        for r in recs:
            f.write(json.dumps(r) + "\n")
    rc, out = run.tlc_trace("ConfigTrace.tla", "ConfigTrace.cfg", tf, wd + "/cfgt")
    if "No error has been found" not in out:
        raise run.ToolError("ConfigTrace failed:\n" + out[-2500:])
    viol = []
    for runno, text in run.tagged(out, "CFGVIOL"):
        viol.append((runno, text, recs[runno - 1]))
    return {"runs": len(recs), "started": sum(1 for r in recs if r["started"]), "violations": viol, "samples": [recs[0], recs[len(recs) // 2]]}


def mpp_check(seed, tier, wd):
    """C11 on the real binary: the MPP timeout that governs incomplete sets is the configured trampoline-mpp-timeout
    (not another option).  Returns ConfigTrace violations of kind MppTimeout."""
    build()
    T = templates()
    vs = [dict(DEFAULTS, mpp=1, paytimeout=5), dict(DEFAULTS, mpp=2, paytimeout=1), dict(DEFAULTS, mpp=0, paytimeout=3)]
    from concurrent.futures import ThreadPoolExecutor
    with ThreadPoolExecutor(max_workers=3) as ex:
        recs = list(ex.map(lambda kv: one_config(kv[0] + 1, kv[1], T, True), enumerate(vs)))
    tf = wd + "/mpp.ndjson"
    with open(tf, "w") as f:
        for r in recs:
            f.write(json.dumps(r) + "\n")
    rc, out = run.tlc_trace("ConfigTrace.tla", "ConfigTrace.cfg", tf, wd + "/mppt")
    if "No error has been found" not in out:
        raise run.ToolError("ConfigTrace failed:\n" + out[-2500:])
    viol = [(runno, text, recs[runno - 1]) for runno, text in run.tagged(out, "CFGVIOL") if "MppTimeout" in text]
    return {"runs": len(recs), "violations": viol}


def iso_check(seed, tier, wd):
    """C14 on the real binary (the only engine that runs rpc.rs): payment A was interrupted with `nparts` parts still
    in flight, so after the restart the plugin waits on them (waitsendpay never returns); an HTLC set for another
    hash B must still be paid and settled."""
    build()
    T = templates()
    recs = []
    for runno, nparts in enumerate((1, 4, 9), 1):
        pl = Plugin(options={OPT[k]: v for k, v in dict(DEFAULTS, mpp=5).items()}, height=1000)
        pl.node.node_id = T["local"]
        try:
            hA = hashlib.sha256(bytes.fromhex(T["preimages"][0])).hexdigest()
            preB = T["preimages"][2]
            pl.node.store[("trampoline", "payments", hA, "state")] = (json.dumps({"Pending": {"attempt_id": "1", "attempt_time_seconds": int(time.time())}}), 0)
            pl.node.store[("trampoline", "payments", hA, "attempts", "1")] = (json.dumps({"amount_msat": T["A"], "bolt11": "x", "completed": False, "success": False}), 0)
            pl.node.parts = [{"created_index": k, "id": k, "groupid": 1, "partid": k, "payment_hash": hA, "status": "pending",
                              "amount_sent_msat": 1, "created_at": 1} for k in range(1, nparts + 1)]
            pl.node.pay_mode = "complete:" + preB
            if pl.handshake() != "ok":
                raise run.ToolError("real binary did not start for the isolation scenario")
            A = T["A"]; need = A + A * 5000 // 10**6
            pl.send(patched(T["ok"], "A1", 1, need, need, 1000 + 34 + 1008 + 500, 70000))
            time.sleep(0.4)
            # a block arrives while A is held (its notification handler must not come between B and its answer)
            pl.send({"jsonrpc": "2.0", "method": "block_added", "params": {"block_added": {"hash": "00" * 32, "height": 1001}}})
            time.sleep(0.2)
            pl.send(patched(T["other"], "B1", 2, need, need, 1000 + 34 + 1008 + 500, 70000))
            fr = pl.read_frames(lambda f: any(ok and o.get("id") == "B1" for ok, o in f), 15.0)
            waits = len([c for c in pl.node.calls if c[0] == "waitsendpay"])
            recs.append({"ev": "e2e", "run": runno, "sent": ['"B1"'], "leftover": pl.leftover(), "a_waits": waits,
                         "frames": [{"json": ok, "id": json.dumps(o.get("id")) if ok and "id" in o else "none",
                                     "kind": ("result" if ok and "result" in o else "error" if ok and "error" in o else "notification" if ok and "method" in o else "garbage"),
                                     "result": (o.get("result", {}).get("result", "") if ok and isinstance(o.get("result"), dict) else "")}
                                    for ok, o in fr if not (ok and o.get("method") == "log")]})
        finally:
            pl.close()
    # payment A is an incomplete set of many parts waiting for its MPP timeout (every one of its hook calls is
    # unanswered); payment B must still be settled at once
    for runno, nA in enumerate((4, 6, 9), len(recs) + 1):
        pl = Plugin(options={OPT[k]: v for k, v in dict(DEFAULTS, mpp=40).items()}, height=1000)
        pl.node.node_id = T["local"]
        try:
            preB = T["preimages"][2]
            pl.node.pay_mode = "complete:" + preB
            if pl.handshake() != "ok":
                raise run.ToolError("real binary did not start for the isolation scenario")
            A = T["A"]; need = A + A * 5000 // 10**6
            share = need // (nA + 1)
            for k in range(nA):
                pl.send(patched(T["ok"], "A%d" % k, k + 1, share, need, 1000 + 34 + 1008 + 500, 70000))
            time.sleep(0.4)
            pl.send({"jsonrpc": "2.0", "method": "block_added", "params": {"block_added": {"hash": "00" * 32, "height": 1001}}})
            time.sleep(0.2)
            pl.send(patched(T["other"], "B1", 50, need, need, 1000 + 34 + 1008 + 500, 70000))
            fr = pl.read_frames(lambda f: any(ok and o.get("id") == "B1" for ok, o in f), 15.0)
            fr = [(ok, o) for ok, o in fr if not (ok and isinstance(o.get("id"), str) and o.get("id", "").startswith("A"))]
            recs.append({"ev": "e2e", "run": runno, "sent": ['"B1"'], "leftover": pl.leftover(), "a_parts": nA,
                         "expect": [{"id": '"B1"', "result": "resolve"}],
                         "frames": [{"json": ok, "id": json.dumps(o.get("id")) if ok and "id" in o else "none",
                                     "kind": ("result" if ok and "result" in o else "error" if ok and "error" in o else "notification" if ok and "method" in o else "garbage"),
                                     "result": (o.get("result", {}).get("result", "") if ok and isinstance(o.get("result"), dict) else "")}
                                    for ok, o in fr if not (ok and o.get("method") == "log")]})
        finally:
            pl.close()
    # a crowd: many payments of distinct hashes, each an incomplete set waiting for its MPP timeout (the table and
    # whatever else is shared between hashes is well filled); payment B must still be settled at once
    for runno, nC in enumerate(((150,) if tier == "quick" else (150, 245)), len(recs) + 1):
        crowd = crowd_templates(nC)
        pl = Plugin(options={OPT[k]: v for k, v in dict(DEFAULTS, mpp=60).items()}, height=1000)
        pl.node.node_id = T["local"]
        try:
            preB = T["preimages"][2]
            pl.node.pay_mode = "complete:" + preB
            if pl.handshake() != "ok":
                raise run.ToolError("real binary did not start for the isolation scenario")
            A = T["A"]; need = A + A * 5000 // 10**6
            # (written by a thread while the output is read: the plugin logs a line per HTLC, and nobody reading its
            # stdout while this side blocks writing its stdin would be a deadlock of the harness, not of the plugin)
            data = b"".join((json.dumps(patched(q, "C%d" % k, k + 1, need // 2, need, 1000 + 34 + 1008 + 500, 70000)) + "\n\n").encode()
                            for k, q in enumerate(crowd))
            th = threading.Thread(target=pl.send_raw, args=(data,), daemon=True)
            th.start()
            pl.read_frames(lambda f: not th.is_alive(), 30.0)
            if th.is_alive():
                raise run.ToolError("isolation scenario: the plugin did not take the crowd's requests within 30 s")
            pl.read_frames(None, 1.0)
            pl.send(patched(T["other"], "B1", 5000, need, need, 1000 + 34 + 1008 + 500, 70000))
            fr = pl.read_frames(lambda f: any(ok and o.get("id") == "B1" for ok, o in f), 20.0)
            fr = [(ok, o) for ok, o in fr if not (ok and isinstance(o.get("id"), str) and o.get("id", "").startswith("C"))]
            recs.append({"ev": "e2e", "run": runno, "sent": ['"B1"'], "leftover": pl.leftover(), "a_parts": nC,
                         "expect": [{"id": '"B1"', "result": "resolve"}],
                         "frames": [{"json": ok, "id": json.dumps(o.get("id")) if ok and "id" in o else "none",
                                     "kind": ("result" if ok and "result" in o else "error" if ok and "error" in o else "notification" if ok and "method" in o else "garbage"),
                                     "result": (o.get("result", {}).get("result", "") if ok and isinstance(o.get("result"), dict) else "")}
                                    for ok, o in fr if not (ok and o.get("method") == "log")]})
        finally:
            pl.close()
    tf = wd + "/e2e_iso.ndjson"
    with open(tf, "w") as f:
        for l in recs:
            f.write(json.dumps(l) + "\n")
    rc, out = run.tlc_trace("E2eTrace.tla", "E2eTrace.cfg", tf, wd + "/e2ei")
    if "No error has been found" not in out:
        raise run.ToolError("E2eTrace failed:\n" + out[-2000:])
    viol = [(runno, text, recs[runno - 1]) for runno, text in run.tagged(out, "E2EVIOL")]
    return {"runs": len(recs), "violations": viol}


def codes_check(seed, tier, wd):
    """C15 on the real binary (the part-level error codes travel through the real rpc.rs): payment A was interrupted
    with two parts in flight; after the restart one of them fails with a documented part-level code while the other is
    still pending and completes a little later.  The replayed HTLC must be settled with the preimage."""
    build()
    T = templates()
    recs = []
    for runno, code in enumerate((202, 203, 204, 208, 209), 1):
        pl = Plugin(options={OPT[k]: v for k, v in dict(DEFAULTS, mpp=5).items()}, height=1000)
        pl.node.node_id = T["local"]
        try:
            preA = T["preimages"][0]
            hA = hashlib.sha256(bytes.fromhex(preA)).hexdigest()
            pl.node.store[("trampoline", "payments", hA, "state")] = (json.dumps({"Pending": {"attempt_id": "1", "attempt_time_seconds": int(time.time())}}), 0)
            pl.node.store[("trampoline", "payments", hA, "attempts", "1")] = (json.dumps({"amount_msat": T["A"], "bolt11": "x", "completed": False, "success": False}), 0)
            base = {"groupid": 1, "payment_hash": hA, "status": "pending", "amount_sent_msat": 1, "created_at": 1}
            pl.node.parts = [dict(base, created_index=1, id=1, partid=1, _fate=("code", code, 0.1)),
                             dict(base, created_index=2, id=2, partid=2, _fate=("complete", preA, 0.5))]
            pl.node.pay_mode = "fail"
            if pl.handshake() != "ok":
                raise run.ToolError("real binary did not start for the part-code scenario")
            A = T["A"]; need = A + A * 5000 // 10**6
            pl.send(patched(T["ok"], "A1", 1, need, need, 1000 + 34 + 1008 + 500, 70000))
            fr = pl.read_frames(lambda f: any(ok and o.get("id") == "A1" for ok, o in f), 15.0)
            recs.append({"ev": "e2e", "run": runno, "sent": ['"A1"'], "leftover": pl.leftover(), "code": code,
                         "expect": [{"id": '"A1"', "result": "resolve"}],
                         "frames": [{"json": ok, "id": json.dumps(o.get("id")) if ok and "id" in o else "none",
                                     "kind": ("result" if ok and "result" in o else "error" if ok and "error" in o else "notification" if ok and "method" in o else "garbage"),
                                     "result": (o.get("result", {}).get("result", "") if ok and isinstance(o.get("result"), dict) else "")}
                                    for ok, o in fr if not (ok and o.get("method") == "log")]})
        finally:
            pl.close()
    tf = wd + "/e2e_codes.ndjson"
    with open(tf, "w") as f:
        for l in recs:
            f.write(json.dumps(l) + "\n")
    rc, out = run.tlc_trace("E2eTrace.tla", "E2eTrace.cfg", tf, wd + "/e2ec")
    if "No error has been found" not in out:
        raise run.ToolError("E2eTrace failed:\n" + out[-2000:])
    viol = [(runno, text, recs[runno - 1]) for runno, text in run.tagged(out, "E2EVIOL")]
    return {"runs": len(recs), "violations": viol}


def poll_check(seed, tier, wd):
    """C20 on the real binary (main.rs + rpc.rs + block_watcher.rs together): the node's chain grows, no block_added
    notification is delivered, and one poll interval later a payment is initiated: the route delay it grants shows which
    height the plugin uses.  (Takes a little more than the 60 s poll interval of wall-clock time.)"""
    build()
    T = templates()
    pl = Plugin(options={OPT[k]: v for k, v in dict(DEFAULTS, mpp=5).items()}, height=1000)
    pl.node.node_id = T["local"]
    recs = []
    try:
        pl.node.pay_mode = "complete:" + T["preimages"][0]
        if pl.handshake() != "ok":
            raise run.ToolError("real binary did not start for the poll scenario")
        grow = 7
        pl.node.height = 1000 + grow          # no notification is sent
        time.sleep(64.0)
        A = T["A"]; need = A + A * 5000 // 10**6
        margin = 50
        exp = 1000 + grow + DEFAULTS["sdelta"] + margin
        pl.send(patched(T["ok"], "A1", 1, need, need, exp, 70000))
        fr = pl.read_frames(lambda f: any(ok and o.get("id") == "A1" for ok, o in f), 15.0)
        pays = [c[1] for c in pl.node.calls if c[0] == "pay"]
        polls = len([c for c in pl.node.calls if c[0] == "getinfo"])
        delay = pays[0].get("maxdelay", -1) if pays else -1
        recs.append({"ev": "e2e", "run": 1, "sent": ['"A1"'], "leftover": pl.leftover(), "polls": polls,
                     "bound": {"what": "maxdelay", "val": delay if delay is not None else -1, "max": margin},
                     "expect": [{"id": '"A1"', "result": "resolve"}],
                     "frames": [{"json": ok, "id": json.dumps(o.get("id")) if ok and "id" in o else "none",
                                 "kind": ("result" if ok and "result" in o else "error" if ok and "error" in o else "notification" if ok and "method" in o else "garbage"),
                                 "result": (o.get("result", {}).get("result", "") if ok and isinstance(o.get("result"), dict) else "")}
                                for ok, o in fr if not (ok and o.get("method") == "log")]})
    finally:
        pl.close()
    tf = wd + "/e2e_poll.ndjson"
    with open(tf, "w") as f:
        for l in recs:
            f.write(json.dumps(l) + "\n")
    rc, out = run.tlc_trace("E2eTrace.tla", "E2eTrace.cfg", tf, wd + "/e2ep")
    if "No error has been found" not in out:
        raise run.ToolError("E2eTrace failed:\n" + out[-2000:])
    viol = [(runno, text, recs[runno - 1]) for runno, text in run.tagged(out, "E2EVIOL")]
    return {"runs": len(recs), "violations": viol}


def lostreply_check(seed, tier, wd):
    """C05 on the real binary (rpc.rs is only compiled there): the reply of the pay command is lost at transport level
    after the node received the request.  The node must not be sent a second pay for that hash."""
    build()
    T = templates()
    recs = []
    for runno in (1, 2):
        pl = Plugin(options={OPT[k]: v for k, v in dict(DEFAULTS, mpp=5).items()}, height=1000)
        pl.node.node_id = T["local"]
        try:
            pl.node.pay_mode = "lost-then-fail"
            if pl.handshake() != "ok":
                raise run.ToolError("real binary did not start for the lost-reply scenario")
            A = T["A"]; need = A + A * 5000 // 10**6
            pl.send(patched(T["ok"], "A1", 1, need, need, 1000 + 34 + 1008 + 500, 70000))
            fr = pl.read_frames(lambda f: any(ok and o.get("id") == "A1" for ok, o in f), 15.0)
            time.sleep(0.3)
            pays = len([c for c in pl.node.calls if c[0] == "pay"])
            recs.append({"ev": "e2e", "run": runno, "sent": ['"A1"'], "leftover": pl.leftover(), "pay_calls": pays, "pay_calls_max": 1,
                         "frames": [{"json": ok, "id": json.dumps(o.get("id")) if ok and "id" in o else "none",
                                     "kind": ("result" if ok and "result" in o else "error" if ok and "error" in o else "notification" if ok and "method" in o else "garbage"),
                                     "result": (o.get("result", {}).get("result", "") if ok and isinstance(o.get("result"), dict) else "")}
                                    for ok, o in fr if not (ok and o.get("method") == "log")]})
        finally:
            pl.close()
    tf = wd + "/e2e_lost.ndjson"
    with open(tf, "w") as f:
        for l in recs:
            f.write(json.dumps(l) + "\n")
    rc, out = run.tlc_trace("E2eTrace.tla", "E2eTrace.cfg", tf, wd + "/e2el")
    if "No error has been found" not in out:
        raise run.ToolError("E2eTrace failed:\n" + out[-2000:])
    viol = [(runno, text, recs[runno - 1]) for runno, text in run.tagged(out, "E2EVIOL")]
    return {"runs": len(recs), "violations": viol}


STORM = {"quick": 1500, "thorough": 8000}

def burst_check(seed, tier, wd):
    """C06 on the real binary: a payment of many parts; every htlc_accepted call of the set is answered exactly once
    (resolve() answers the whole set in the same instant, the driver has to get every reply out)."""
    build()
    T = templates()
    recs = []
    for runno, nparts in enumerate((3, 7, 12, 24), 1):
        # (every second run with trace logging: the logging layer then works on every span of every handler)
        pl = Plugin(options={OPT[k]: v for k, v in dict(DEFAULTS, mpp=5).items()}, height=1000, log="trace" if runno % 2 == 0 else None)
        pl.node.node_id = T["local"]
        try:
            pl.node.pay_mode = "complete:" + T["preimages"][0]
            if pl.handshake() != "ok":
                raise run.ToolError("real binary did not start for the burst scenario")
            A = T["A"]; need = A + A * 5000 // 10**6
            share = need // nparts
            ids = []
            # a few calls whose payload cannot be parsed at all (very short, truncated): each still gets a hook result
            for k, bad in enumerate(("fd", "fe0000", "0501ff", "05fd00")):
                rid = "m%d" % k
                ids.append(rid)
                pl.send(htlc_request(rid, bad, htlc_id=1000 + k))
            for k in range(nparts):
                amt = share if k < nparts - 1 else need - share * (nparts - 1)
                rid = "p%d" % k
                ids.append(rid)
                pl.send(patched(T["ok"], rid, k + 1, amt, need, 1000 + 34 + 1008 + 500, 70000))
            fr = pl.read_frames(lambda f: sum(1 for ok, o in f if ok and o.get("id") in ids) >= len(ids), 20.0)
            if runno % 2 == 0:
                # with trace logging on: a storm of HTLCs that are not for the plugin (answered at once, each handler
                # enters and closes its spans), as fast as the plugin reads them: the runtime's workers are inside the
                # handler and the logging layer at the same time
                K = STORM[tier] * (runno // 2)
                sids = ["s%d" % k for k in range(K)]
                ids += sids
                fr = pl.storm([htlc_request(rid, "0209" + "00" * 9, htlc_id=5000 + k) for k, rid in enumerate(sids)], b'"id":"s', 30.0 + K / 200.0)
                fr = pl.read_frames(lambda f: sum(1 for ok, o in f if ok and o.get("id") in set(ids)) >= len(ids), 10.0)
            recs.append({"ev": "e2e", "run": runno, "sent": [json.dumps(i) for i in ids], "leftover": pl.leftover(),
                         "frames": [{"json": ok, "id": json.dumps(o.get("id")) if ok and "id" in o else "none",
                                     "kind": ("result" if ok and "result" in o else "error" if ok and "error" in o else "notification" if ok and "method" in o else "garbage"),
                                     "result": (o.get("result", {}).get("result", "") if ok and isinstance(o.get("result"), dict) else "")}
                                    for ok, o in fr if not (ok and o.get("method") == "log")]})
        finally:
            pl.close()
    tf = wd + "/e2e_burst.ndjson"
    with open(tf, "w") as f:
        for l in recs:
            f.write(json.dumps(l) + "\n")
    rc, out = run.tlc_trace("E2eTrace.tla", "E2eTrace.cfg", tf, wd + "/e2eb")
    if "No error has been found" not in out:
        raise run.ToolError("E2eTrace failed:\n" + out[-2000:])
    viol = [(runno, text, recs[runno - 1]) for runno, text in run.tagged(out, "E2EVIOL")]
    return {"runs": len(recs), "violations": viol}
