"""Vectors for fee_sufficient at 64 bits: boundaries of every checked operation,
boundaries of the predicate itself (total = rhs-1, rhs, rhs+1), seeded random."""
import random
U64 = 2**64 - 1
U32 = 2**32 - 1

def interesting(rng):
    base = [0, 1, 2, 999_999, 10**6, 10**6 + 1, 2**31, 2**32 - 1, 2**32, 2**32 + 1, 2**63 - 1, 2**63, 2**63 + 1,
            U64, U64 - 1, U64 - 10**6, U64 // 2, U64 // 2 + 1, 10**12, 2_100_000_000_000_000_000]
    return base

def vectors(seed, n):
    rng = random.Random(seed)
    pol = [0, 1, 2, 1000, 5000, 10**6 - 1, 10**6, 10**6 + 1, 2**31, U32 - 1, U32]
    vs = []
    I = interesting(rng)
    def add(base, ppm, total, amount):
        if 0 <= total <= U64 and 0 <= amount <= U64:
            vs.append({"base": base, "ppm": ppm, "total": str(total), "amount": str(amount)})
    # the repository's own pinned vectors
    add(0, 2, U64, U64 // 2 + 1); add(0, 2, U64, U64 // 2); add(0, 1, 999_999, 999_999); add(0, 1, 10**6, 10**6)
    for amount in I:
        for ppm in pol:
            for base in (0, 1, 1000, U32):
                rhs = amount + base + amount * ppm // 10**6
                for total in (rhs - 1, rhs, rhs + 1, amount, amount - 1, U64, 0):
                    add(base, ppm, total, amount)
            if ppm:
                q = U64 // ppm      # boundary of checked_mul
                for a in (q - 1, q, q + 1):
                    for total in (U64, a, a + a * ppm // 10**6, a + a * ppm // 10**6 - 1):
                        add(1, ppm, total, a)
    while len(vs) < n:
        ppm = rng.choice(pol + [rng.randint(0, U32)])
        base = rng.choice([0, 1, 1000, rng.randint(0, U32), U32])
        bits = rng.randint(1, 64)
        amount = rng.getrandbits(bits)
        rhs = amount + base + amount * ppm // 10**6
        total = rng.choice([rhs - 1, rhs, rhs + 1, rng.getrandbits(64), amount, U64])
        add(base, ppm, total, amount)
    return vs

def enc_vectors(seed, n):
    rng = random.Random(seed ^ 0xE)
    vs = []
    B = [0, 1, 255, 256, 65535, 65536, 2**24, 2**31, U32 - 1, U32]
    D = [0, 1, 34, 255, 256, 1008, 65534, 65535]
    for b in B:
        for p in B:
            for d in D:
                vs.append({"kind": "enc", "base": b, "ppm": p, "delta": d})
    while len(vs) < n:
        vs.append({"kind": "enc", "base": rng.getrandbits(32), "ppm": rng.getrandbits(32), "delta": rng.getrandbits(16)})
    return vs
