"""Vectors for the TLV codec: all short strings over a boundary alphabet, structurally
generated valid streams (every BigSize width and boundary), truncations at every offset,
non-canonical encodings, tu64 of every length."""
import random, itertools

def bigsize(v, width=None):
    if width is None:
        width = 1 if v < 0xfd else 3 if v <= 0xffff else 5 if v <= 0xffffffff else 9
    if width == 1:
        return [v]
    if width == 3:
        return [0xfd] + list(v.to_bytes(2, "big"))
    if width == 5:
        return [0xfe] + list(v.to_bytes(4, "big"))
    return [0xff] + list(v.to_bytes(8, "big"))

def rec(t, val, tw=None, lw=None):
    return bigsize(t, tw) + bigsize(len(val), lw) + list(val)

TYPES = [0, 1, 2, 4, 8, 16, 252, 253, 254, 255, 256, 33001, 33003, 65535, 65536, 2**32 - 1, 2**32, 2**63, 2**64 - 1]
LENS = [0, 1, 2, 8, 9, 252, 253, 254, 255, 256, 300]

def vectors(seed, n, short_len):
    rng = random.Random(seed)
    vs = []
    alpha = [0, 1, 2, 16, 252, 253, 254, 255]
    for L in range(0, short_len + 1):
        for t in itertools.product(alpha, repeat=L):
            vs.append({"kind": "dec", "entry": "plain", "bytes": list(t)})
            if L <= short_len - 1:
                vs.append({"kind": "dec", "entry": "prefixed", "bytes": list(t)})
    def valid_stream():
        k = rng.randint(0, 4)
        ts = sorted(rng.sample(TYPES, k))
        recs = []
        for t in ts:
            ln = rng.choice(LENS) if rng.random() < 0.5 else rng.randint(0, 12)
            recs.append((t, [rng.randrange(256) for _ in range(ln)]))
        return recs
    while len(vs) < n:
        recs = valid_stream()
        b = []
        for t, v in recs:
            b += rec(t, v)
        c = rng.random()
        if c < 0.25:
            vs.append({"kind": "dec", "entry": "plain", "bytes": b})
            vs.append({"kind": "dec", "entry": "prefixed", "bytes": bigsize(len(b)) + b})
        elif c < 0.45:   # truncation at every offset of a short valid stream
            if len(b) <= 40:
                for k in range(len(b)):
                    vs.append({"kind": "dec", "entry": "plain", "bytes": b[:k]})
                    vs.append({"kind": "dec", "entry": "prefixed", "bytes": (bigsize(len(b)) + b)[:k + 1]})
            else:
                k = rng.randrange(len(b))
                vs.append({"kind": "dec", "entry": "plain", "bytes": b[:k]})
        elif c < 0.55:   # non-canonical widths / wrong order / huge lengths / wrong prefix
            t, v = rng.choice(TYPES[:12]), [1, 2, 3]
            vs.append({"kind": "dec", "entry": "plain", "bytes": rec(t, v, tw=rng.choice([3, 5, 9]))})
            vs.append({"kind": "dec", "entry": "plain", "bytes": rec(t, v, lw=rng.choice([3, 5, 9]))})
            vs.append({"kind": "dec", "entry": "plain", "bytes": bigsize(t) + bigsize(rng.choice([2**63, 2**64 - 1, 2**32, 70000])) + v})
            vs.append({"kind": "dec", "entry": "plain", "bytes": rec(5, v) + rec(3, v)})
            vs.append({"kind": "dec", "entry": "prefixed", "bytes": bigsize(len(b) + rng.choice([-1, 1, 5, 2**40])  if len(b) else 7) + b})
            vs.append({"kind": "dec", "entry": "plain", "bytes": [rng.choice([253, 254, 255])] + [rng.randrange(256) for _ in range(rng.randint(0, 8))]})
        elif c < 0.75:
            vs.append({"kind": "encdec", "recs": [{"typ": list(t.to_bytes(8, "big")), "val": v} for t, v in recs]})
        elif c < 0.9:
            if recs:
                t = rng.choice([16, recs[0][0], rng.choice(TYPES[:10])])
                if t < 2**24:
                    vs.append({"kind": "getrm", "bytes": b, "typ": t})
        else:
            L = rng.randint(0, 12)
            vs.append({"kind": "tu64", "bytes": [rng.choice([0, 1, 255, rng.randrange(256)]) for _ in range(L)]})
    for L in range(0, 13):
        vs.append({"kind": "tu64", "bytes": [0xff] * L})
        vs.append({"kind": "tu64", "bytes": [0] * L})
        vs.append({"kind": "tu64", "bytes": [0] * max(0, L - 1) + [1] * min(1, L)})
    return vs
