"""Jobs for Engine A-wire: message lists, cut sets drawn from the interesting positions of the
byte stream (around every separator, inside multi-byte characters, after lone newlines), all
completion orders of the handlers."""
import json, random, itertools

PADS = ["", "x", "éé", "a中文b", "\U0001F600", "line1\\nline2"]

def make_msgs(rng, k):
    msgs = []
    for t in range(1, k + 1):
        kind = rng.choice(["hook", "hook", "hook", "notif", "unknown-notif"])
        mid = rng.choice([t * 7, "s%d" % t, t + 1000, "h#%d" % t])
        msgs.append({"kind": kind, "id": mid, "tag": t, "pad": rng.choice(PADS)})
    return msgs

def text_of(m, pretty):
    params = {"tag": m["tag"], "pad": m["pad"], "block_added": {"height": 1}}
    if m["kind"] == "hook":
        v = {"jsonrpc": "2.0", "id": m["id"], "method": "htlc_accepted", "params": params}
    elif m["kind"] == "notif":
        v = {"jsonrpc": "2.0", "method": "block_added", "params": params}
    else:
        v = {"jsonrpc": "2.0", "method": "channel_opened", "params": params}
    return None

def jobs(seed, n, handshake_len_hint=0):
    rng = random.Random(seed)
    out = []
    for r in range(n):
        k = rng.randint(1, 4)
        msgs = make_msgs(rng, k)
        hooks = [m["tag"] for m in msgs if m["kind"] == "hook"]
        total = 600 * (k + 2)       # generous bound; the harness clips chunks at the end of the stream
        style = rng.random()
        steps = []
        if style < 0.3:
            # byte by byte through a window, then the rest
            start = rng.randint(0, 500)
            steps.append({"a": "chunk", "n": start} if start else {"a": "chunk", "n": 1})
            steps += [{"a": "chunk", "n": 1} for _ in range(rng.randint(50, 400))]
            steps.append({"a": "chunk", "n": total})
        elif style < 0.6:
            # random chunk sizes, biased to tiny ones
            left = total
            while left > 0:
                c = rng.choice([1, 1, 2, 3, 5, 8, 13, 50, 200, 1000])
                steps.append({"a": "chunk", "n": c}); left -= c
        else:
            steps.append({"a": "chunk", "n": total})
        # interleave handler completions in a random order at random places after enough input
        order = hooks[:]
        rng.shuffle(order)
        fin = [{"a": "finish", "tag": t, "how": rng.choice(["ok", "ok", "err"])} for t in order]
        tail = [{"a": "chunk", "n": total}] + fin
        if rng.random() < 0.5:
            # completions interleaved with late chunks
            for f in fin:
                steps.insert(rng.randint(len(steps) // 2, len(steps)), f)
            steps += [{"a": "chunk", "n": total}] + fin   # any not yet possible are retried at the end
        else:
            steps += tail
        out.append({"run": r + 1, "msgs": msgs, "steps": steps, "pretty": rng.random() < 0.4})
    return out

def cut_jobs(seed, limit):
    """systematic cuts: for one fixed stream of 2 messages, every single cut position and every pair of cut
    positions around the separators and multi-byte characters"""
    rng = random.Random(seed)
    out = []
    msgs = [{"kind": "hook", "id": 11, "tag": 1, "pad": "éa中"}, {"kind": "notif", "id": 0, "tag": 2, "pad": ""},
            {"kind": "hook", "id": "x3", "tag": 3, "pad": "\U0001F600"}]
    L = 900
    run = 100000
    singles = list(range(1, L))
    for c in singles:
        out.append({"run": run, "msgs": msgs, "pretty": False,
                    "steps": [{"a": "chunk", "n": c}, {"a": "chunk", "n": 5000}, {"a": "finish", "tag": 3, "how": "ok"}, {"a": "finish", "tag": 1, "how": "err"}]})
        run += 1
    for _ in range(limit):
        cs = sorted(rng.sample(range(1, L), 3))
        steps = [{"a": "chunk", "n": cs[0]}, {"a": "chunk", "n": cs[1] - cs[0]}, {"a": "chunk", "n": cs[2] - cs[1]}, {"a": "chunk", "n": 5000}]
        order = rng.sample([1, 3], 2)
        steps += [{"a": "finish", "tag": t, "how": "ok"} for t in order]
        out.append({"run": run, "msgs": msgs, "pretty": rng.random() < 0.5, "steps": steps})
        run += 1
    return out


def burst_jobs(seed, n):
    """many hook calls whose handlers return in the same instant, and a reader that drains stdout late through a small pipe"""
    rng = random.Random(seed ^ 0xb5)
    out = []
    for r in range(n):
        k = rng.choice([5, 6, 8, 12, 16])
        msgs = [{"kind": "hook", "id": rng.choice([t + 100, "b%d" % t]), "tag": t, "pad": rng.choice(PADS + ["x" * rng.choice([10, 3000])])} for t in range(1, k + 1)]
        steps = [{"a": "chunk", "n": 10 ** 7}]
        slow = rng.random() < 0.5
        if slow:
            steps.append({"a": "read"})
        tags = list(range(1, k + 1)); rng.shuffle(tags)
        if rng.random() < 0.6:
            steps.append({"a": "finish_many", "tags": tags, "how": "ok"})
        else:
            cut = rng.randint(1, k - 1)
            steps.append({"a": "finish_many", "tags": tags[:cut], "how": "ok"})
            steps.append({"a": "finish_many", "tags": tags[cut:], "how": rng.choice(["ok", "err"])})
        job = {"run": 0, "msgs": msgs, "steps": steps, "pretty": False}
        if slow:
            # replies pile up behind a small pipe; further input arrives meanwhile; then the reader catches up
            job["slow"] = True; job["outcap"] = rng.choice([64, 256, 4096])
            extra = [{"kind": "notif", "id": 0, "tag": k + 1, "pad": ""}, {"kind": "hook", "id": "late", "tag": k + 2, "pad": ""}]
            job["msgs"] = msgs[:-0 or None]
            # the late messages are part of the stream from the start; deliver all but them first
            job["msgs"] = msgs + extra
            job["steps"] = [{"a": "chunk", "n": -1}]  # placeholder, fixed below
        out.append(job)
    # slow jobs: deliver the first k messages, finish them all, THEN deliver the late messages, then read
    for job in out:
        if job.get("slow"):
            k = len(job["msgs"]) - 2
            tags = list(range(1, k + 1)); rng.shuffle(tags)
            job["steps"] = [{"a": "chunk_msgs", "upto": k}, {"a": "read"}, {"a": "finish_many", "tags": tags, "how": "ok"},
                            {"a": "chunk", "n": 10 ** 7}, {"a": "finish", "tag": k + 2, "how": "ok"},
                            {"a": "read"}, {"a": "read"}]
    return out
