"""Checks of the lifecycle family (C01-C09, C11-C14): TLC on the design,
schedules from TLC replayed on the real code, random schedules, Observer."""
import json, os, re, subprocess, shutil, time, random
from . import scen, run, models

WORK = run.WORK

# property -> what its check explores (kept inside the property's quantifier)
#   models/tmodels: design instances checked (quick / additionally in thorough) and mined for schedules
#   fams: scenario families for the random scheduler
#   crashes/wf/rf: crash and fault budgets of the random runs (rf only where the quantifier includes read errors)
LIFE = {
    "C01": dict(models=["base_foreign", "restart"], tmodels=["t_restart3", "overlap"], fams=["other", "base", "amtless", "twohash"],
                crashes=(0, 1), wf=0, rf=0, extra=["class", "twin_key"]),
    "C02": dict(extra=["wait_timeout", "slow_decision", "write_fault", "late_replay", "late_bad", "stale_tail", "k1_then_fail"], focus=["Overlap", "Live"], models=["restart", "faults"], tmodels=["t_restart3", "t_faults2", "overlap"], fams=["base", "overlap", "amtless", "replay"],
                crashes=(0, 1, 1), wf=1, rf=0, trf=1),
    "C03": dict(models=["base_conf", "base_amtless", "base_zero", "restart"], tmodels=["t_restart3", "base_tot"], fams=["base", "amtless", "overlap", "other"],
                crashes=(0, 1), wf=0, rf=0, extra=["class"]),
    "C04": dict(models=["base_exp"], tmodels=["base_conf", "overlap"], fams=["base", "overlap"], crashes=(0,), wf=0, rf=0, heights=True,
                extra=["late_replay"]),
    "C05": dict(focus=["Overlap", "Live"], models=["overlap", "overlapc", "restart"], tmodels=["overlap3", "t_overlap2", "t_restart3"], fams=["overlap", "overlap3", "base"],
                crashes=(0, 1, 1), wf=0, rf=0, trf=1, extra=["e2e_lostreply", "write_fault", "late_replay", "stale_tail"]),
    "C06": dict(live=["live"], models=["base_conf", "faults"], tmodels=["base_exp", "base_tot", "t_faults2"], fams=["base", "amtless", "other", "overlap", "twohash"],
                crashes=(0,), wf=1, rf=1, extra=["garbage", "class-raw", "e2e_burst", "slow_decision"]),
    "C07": dict(models=["base_conf", "base_exp", "base_tot", "base_amtless"], tmodels=["overlap"], fams=["base", "amtless"],
                crashes=(0,), wf=0, rf=0, extra=["slow_decision", "late_bad"]),
    "C08": dict(extra=["wait_timeout", "write_fault", "late_replay", "late_bad", "stale_tail"], focus=["Overlap", "Live"], models=["overlap", "faults", "restart"], tmodels=["t_overlap2", "t_faults2"], fams=["overlap", "base", "amtless"],
                crashes=(0, 1), wf=1, rf=0),
    "C09": dict(models=["wedge", "faults"], tmodels=["t_faults2", "restart"], fams=["base", "overlap"], crashes=(0, 1, 1), wf=1, rf=0, probes=3,
                extra=["write_fault"]),
    "C11": dict(clockback=True, extra=["restart_wait", "poll_window", "e2e_mpp"], models=["base_conf", "base_thirds", "restart"], tmodels=["t_restart3", "base_exp"], fams=["base", "amtless"], crashes=(0, 1), wf=0, rf=0),
    "C12": dict(models=["base_tot", "base_exp", "base_zero"], tmodels=["base_conf"], fams=["base", "amtless"], crashes=(0,), wf=0, rf=0),
    "C13": dict(models=["base_foreign"], tmodels=["twohash"], fams=["other", "twohash"], crashes=(0,), wf=0, rf=0, extra=["class"]),
    "C10": dict(models=["base_foreign", "base_amtless"], tmodels=["base_conf"], fams=["other", "amtless"], crashes=(0,), wf=0, rf=0, extra=["class"]),
    "C15": dict(models=["provider"], tmodels=[], fams=["base"], crashes=(0,), wf=0, rf=0, direct=3, allrate=1, trf=1, extra=["e2e_codes", "many_parts"]),
    "C16": dict(models=["provider"], tmodels=[], fams=["base"], crashes=(0,), wf=0, rf=0, direct=3, allrate=1, extra=["many_parts"]),
    "C14": dict(extra=["e2e_iso", "poll_window"], live=["iso"], models=["twohash"], tmodels=["t_twohash2"], fams=["twohash"], crashes=(0,), wf=0, rf=0, freeze=True),
}

STATS = re.compile(r"(\d+) states generated, (\d+) distinct states found")
SCHED = re.compile(r'^<<"SCHED", "(.*)">>$')

def parse_scheds(out, direct=False):
    scheds = []
    for line in out.splitlines():
        mm = SCHED.match(line.strip())
        if mm:
            js = mm.group(1).replace('\\"', '"').replace("\\\\", "\\")
            try:
                evs = json.loads(js)
            except Exception:
                continue
            scheds.append([s for s in (ev_to_step(e, direct) for e in evs) if s])
    return scheds

def tlc_design(name, props, workdir, timeout, workers=12, emit_rate=None, seed=1, focus="Edge", sample=None):
    """Check the design instance `name` (or emit schedules).  Returns (generated, distinct, out)."""
    m = models.MODELS[name]
    models.consts_of(name)
    cfgp = f"{workdir}/MC_{name}_{'emit' + focus if emit_rate else 'check'}.cfg"
    os.makedirs(workdir, exist_ok=True)
    if emit_rate:
        open(cfgp, "w").write(models.emit_cfg(m, emit_rate, focus))
    elif sample:
        open(cfgp, "w").write(models.check_cfg(m, m["props"] or props, rate=sample[0], frate=sample[1]))
    else:
        open(cfgp, "w").write(models.check_cfg(m, m["props"] or props))
    meta = f"{workdir}/meta_{name}_{'e' if emit_rate else 'c'}"
    env = dict(os.environ, JAVA_TOOL_OPTIONS="-DTLA-Library=" + run.VERIF + "/spec")
    cmd = ["timeout", str(timeout), "tlc", "-workers", str(workers), "-seed", str(seed), "-metadir", meta, "-cleanup",
           "-noGenerateSpecTE", "-config", cfgp, f"{run.VERIF}/spec/mc/MC_{name}.tla"]
    p = subprocess.run(cmd, cwd=run.VERIF + "/spec/mc", env=env, capture_output=True, text=True)
    shutil.rmtree(meta, ignore_errors=True)
    out = p.stdout
    st = STATS.search(out)
    if p.returncode == 124:
        raise run.ToolError(f"TLC timed out on design instance {name}")
    if "is violated" in out or "Error:" in out:
        raise run.ToolError(f"design instance {name}: TLC reports an error on the specification itself "
                            f"(a framework defect, not a verdict on the code):\n" + out[-3000:])
    if not st:
        raise run.ToolError(f"TLC gave no statistics for {name}:\n" + out[-2000:])
    return int(st.group(1)), int(st.group(2)), out

def tlc_live(name, workdir, timeout=1800):
    """ML_<name>: temporal property `Answered` under fairness.  Returns (generated, distinct)."""
    meta = f"{workdir}/meta_live_{name}"
    env = dict(os.environ, JAVA_TOOL_OPTIONS="-DTLA-Library=" + run.VERIF + "/spec")
    p = subprocess.run(["timeout", str(timeout), "tlc", "-workers", "8", "-metadir", meta, "-cleanup", "-noGenerateSpecTE",
                        "-config", f"ML_{name}.cfg", f"ML_{name}.tla"], cwd=run.VERIF + "/spec/mc", env=env, capture_output=True, text=True)
    shutil.rmtree(meta, ignore_errors=True)
    st = STATS.search(p.stdout)
    if p.returncode == 124 or "Error:" in p.stdout or not st or "No error has been found" not in p.stdout:
        raise run.ToolError(f"liveness instance ML_{name}: TLC reports an error on the specification itself:\n" + p.stdout[-3000:])
    return int(st.group(1)), int(st.group(2))

def ev_to_step(ev, direct=False):
    t = ev["t"]
    def sel(c):
        # name the call by what it is for, not by the argument values the specification expects: a change of the
        # code that alters a mode or a generation must not make the schedule step inapplicable
        s = {k: v for k, v in c.items() if k in ("kind", "hash", "key", "status", "part")}
        return s
    if t == "htlc":
        return {"a": "htlc", "i": ev["i"]}
    if t == "exec":
        return {"a": "exec", "sel": sel(ev["c"]), "who": ev["who"], "fault": ev["fault"]}
    if t == "deliver":
        return {"a": "deliver", "sel": sel(ev["c"]), "who": ev["who"]}
    if t == "paypart":
        # a part without a running pay command exists only in the provider instances (left over by an earlier attempt);
        # in a lifecycle replay that has diverged, a paypart step without a running command is simply inapplicable
        return {"a": "paypart", "sel": {"kind": "pay", "hash": ev["hash"]}, "orphan_ok": bool(direct)}
    if t == "call":
        return {"a": "wp", "hash": ev["hash"]} if ev["fn"] == "wp" else {"a": "paycall", "hash": ev["hash"], "inv": 1}
    if t == "partdone":
        return {"a": "partdone", "p": ev["p"], "how": ev["how"], "code": ev["code"] or 203}
    if t == "payreturn":
        return {"a": "payreturn", "sel": {"kind": "pay", "hash": ev["hash"]}, "outcome": ev["outcome"]}
    if t == "tick":
        return {"a": "tick"}
    if t == "height":
        return {"a": "height", "h": ev["h"]}
    if t == "crash":
        return {"a": "crash", "lose": len(ev["lost"]) > 0}
    if t == "probe":
        return {"a": "phase"}
    return None

def schedules_from_tlc(name, workdir, rate, seed, timeout, limit, focus="Edge"):
    _, _, out = tlc_design(name, None, workdir, timeout, workers=4, emit_rate=rate, seed=seed, focus=focus)
    scheds = []
    for line in out.splitlines():
        mm = SCHED.match(line.strip())
        if mm:
            js = mm.group(1).replace('\\"', '"').replace("\\\\", "\\")
            try:
                evs = json.loads(js)
            except Exception:
                continue
            steps = [s for s in (ev_to_step(e, bool(models.MODELS[name].get("direct"))) for e in evs) if s]
            scheds.append(steps)
    rng = random.Random(seed)
    if len(scheds) > limit:
        scheds = rng.sample(scheds, limit)
    return scheds

def build_jobs(pid, tier, seed, workdir):
    spec = LIFE[pid]
    thorough = tier == "thorough"
    jobs = []
    runno = 1
    sched_stats = {}
    # 1. design verdict + schedules: ONE TLC run per instance checks the properties exhaustively and prints a
    #    sample of its edges (general sample + edges into the overlap / live-payment regions)
    mlist = spec["models"] + (spec["tmodels"] if thorough else [])
    per_model = 20000 if thorough else 1500
    mstats = {}
    EST = {"base_conf": 190000, "base_exp": 370000, "base_tot": 200000, "base_amtless": 43000, "base_foreign": 28000,
           "restart": 280000, "overlap": 480000, "overlap3": 1850000, "overlapc": 440000, "wedge": 300000, "faults": 74000, "twohash": 850000, "rfaults": 80000, "provider": 5000,
           "t_restart3": 6000000, "t_overlap2": 8000000, "t_faults2": 2000000, "t_twohash2": 8000000}
    rng1 = random.Random(seed + 17)
    for name in mlist:
        m = models.MODELS[name]
        est_edges = EST.get(name, 300000)
        rate = spec.get("allrate") or max(1, est_edges // per_model)
        frate = max(1, rate // 5) if spec.get("focus") else 0
        if name.startswith("t_"):
            rate, frate = max(1, est_edges // 3000), 0    # the big instances are checked; only a thin sample is replayed
        g, d, out = tlc_design(name, models.ALLPROPS, workdir, 3000 if thorough else 900, workers=14, seed=seed, sample=(rate, frate))
        mstats[name] = {"generated": g, "distinct": d}
        scheds = parse_scheds(out, direct=bool(m.get("direct")))
        cap = 100000 if spec.get("allrate") else int(per_model * (2.2 if frate else 1.2))
        if len(scheds) > cap:
            scheds = rng1.sample(scheds, cap)
        sched_stats[name] = len(scheds)
        sc = models.scenario(name)
        # the same schedules with the other branch of pay() (trampoline-xpay): every third run
        scx = dict(sc, cfg=dict(sc["cfg"], xpay=True))
        for k_, s_ in enumerate(scheds):
            jobs.append({"run": runno, "scen": scx if k_ % 3 == 2 else sc, "sched": s_, "drain": True, "probes": spec.get("probes", 0), "tag": "tlc:" + name})
            runno += 1
    # 1a. thorough: random walks of TLC (-simulate) on instances far beyond exhaustive reach
    if thorough and not spec.get("direct"):
        for name in ("sim_big", "sim_two"):
            m = models.MODELS[name]; models.consts_of(name)
            cfgp = f"{workdir}/MC_{name}_sim.cfg"
            open(cfgp, "w").write(models.emit_cfg(m, 25))
            env = dict(os.environ, JAVA_TOOL_OPTIONS="-DTLA-Library=" + run.VERIF + "/spec")
            p = subprocess.run(["timeout", "600", "tlc", "-workers", "4", "-seed", str(seed), "-simulate", "num=2500", "-depth", "70",
                                "-metadir", f"{workdir}/meta_sim_{name}", "-cleanup", "-noGenerateSpecTE", "-config", cfgp,
                                f"{run.VERIF}/spec/mc/MC_{name}.tla"], cwd=run.VERIF + "/spec/mc", env=env, capture_output=True, text=True)
            shutil.rmtree(f"{workdir}/meta_sim_{name}", ignore_errors=True)
            scheds = parse_scheds(p.stdout)
            if len(scheds) > 12000:
                scheds = rng1.sample(scheds, 12000)
            sched_stats["simulate:" + name] = len(scheds)
            sc = models.scenario(name)
            for s_ in scheds:
                jobs.append({"run": runno, "scen": sc, "sched": s_, "drain": True, "probes": spec.get("probes", 0), "tag": "sim:" + name})
                runno += 1
    # 1b. seeded random schedules over the instances' own scenarios (these runs are conformance-checked too)
    rng0 = random.Random(seed * 7 + 1)
    for name in mlist:
        if name.startswith("t_") or models.MODELS[name].get("direct"):
            continue
        sc = models.scenario(name)
        npr = models.MODELS[name].get("probes", 0)
        if npr:
            # the instance's probe HTLCs only arrive in its probe phase; the random scheduler has no phases and gets
            # the run-phase catalogue only
            sc = dict(sc, htlcs=sc["htlcs"][:len(sc["htlcs"]) - npr])
        for _ in range(300 if thorough else 60):
            r = {"seed": rng0.getrandbits(40), "steps": rng0.randint(20, 50), "crashes": rng0.choice(spec["crashes"]),
                 "wfaults": rng0.randint(0, spec["wf"]), "rfaults": 0, "maxparts": 2, "maxpays": 3, "maxclock": 8}
            jobs.append({"run": runno, "scen": sc, "rand": r, "probes": 0, "tag": "rnd:" + name})
            runno += 1
    # 2. the harness's own seeded random scheduler
    n = 12000 if thorough else 1500
    rf = spec.get("trf", spec["rf"]) if thorough else spec["rf"]
    rj = scen.rand_jobs(seed, n, spec["fams"], crashes=spec["crashes"], wfaults=spec["wf"], rfaults=rf,
                        probes=spec.get("probes", 0), heights=spec.get("heights", False), freeze=spec.get("freeze", False),
                        start_run=runno, direct=spec.get("direct", 0), policies=spec.get("policies", True), clockback=spec.get("clockback", False))
    jobs += rj
    runno += len(rj)
    # 3. systematically enumerated inputs
    ex = spec.get("extra", [])
    if "class" in ex:
        cj = scen.class_jobs(seed, tier, start_run=runno)
        jobs += cj; runno += len(cj)
        sched_stats["classification cases"] = len(cj)
    elif "class-raw" in ex:
        cj = [j for j in scen.class_jobs(seed, tier, start_run=runno) if j["tag"] in ("class-raw", "class-hint")]
        for k, j in enumerate(cj):
            j["run"] = runno + k
        jobs += cj; runno += len(cj)
        sched_stats["raw metadata cases"] = len(cj)
    if "restart_wait" in ex:
        dj = scen.restart_wait_jobs(start_run=runno)
        jobs += dj; runno += len(dj)
        sched_stats["directed restart/timeout schedules"] = len(dj)
    if "poll_window" in ex:
        dj = scen.poll_window_jobs(start_run=runno)
        jobs += dj; runno += len(dj)
        sched_stats["directed height-poll-in-flight schedules (real BlockWatcher)"] = len(dj)
    if "write_fault" in ex:
        dj = scen.write_fault_jobs(start_run=runno, probes=spec.get("probes", 0))
        jobs += dj; runno += len(dj)
        sched_stats["directed write-fault schedules"] = len(dj)
    if "twin_key" in ex:
        dj = scen.twin_key_jobs(start_run=runno)
        jobs += dj; runno += len(dj)
        sched_stats["directed twin-key schedules"] = len(dj)
    if "k1_then_fail" in ex and thorough:
        dj = scen.k1_then_fail_jobs(start_run=runno)
        jobs += dj; runno += len(dj)
        sched_stats["directed failed-wait-then-fail-request schedules"] = len(dj)
    if "late_replay" in ex:
        dj = scen.late_replay_jobs(start_run=runno)
        jobs += dj; runno += len(dj)
        sched_stats["directed late-replay schedules"] = len(dj)
    if "stale_tail" in ex:
        dj = scen.stale_tail_jobs(start_run=runno)
        jobs += dj; runno += len(dj)
        sched_stats["directed slow-bookkeeping-of-the-old-lifecycle schedules"] = len(dj)
    if "late_bad" in ex:
        dj = scen.late_bad_jobs(start_run=runno)
        jobs += dj; runno += len(dj)
        sched_stats["directed fail-request-while-paying schedules"] = len(dj)
    if "many_parts" in ex:
        dj = scen.many_parts_jobs(start_run=runno)
        jobs += dj; runno += len(dj)
        sched_stats["directed many-parts schedules"] = len(dj)
    if "slow_decision" in ex:
        dj = scen.slow_decision_jobs(start_run=runno)
        jobs += dj; runno += len(dj)
        sched_stats["directed long-undecided-payment schedules"] = len(dj)
    if "wait_timeout" in ex:
        dj = scen.wait_timeout_jobs(start_run=runno)
        jobs += dj; runno += len(dj)
        sched_stats["directed pay-ends-early / late-wait schedules"] = len(dj)
    if "garbage" in ex:
        gj = scen.garbage_jobs(seed, 8000 if thorough else 1200, start_run=runno)
        jobs += gj; runno += len(gj)
        sched_stats["garbage input runs"] = len(gj)
    only = os.environ.get("VF_ONLY")      # debugging aid: restrict a run to the jobs whose tag contains this text
    if only:
        jobs = [j for j in jobs if only in j.get("tag", "")]
    return jobs, sched_stats, mstats
