"""Check orchestration: per-property pipelines, evidence, known findings, exit codes."""
import json, os, time, shutil, subprocess, glob
from . import run, life, models, scen

VERIF = "/verif"
EVID = VERIF + "/evidence"
REPLAYS = VERIF + "/work/replays"

ASSUME = [
    "E1 datastore semantics per lightning-datastore(7) (modes, generations)",
    "E2 a part completes only with the SHA-256 preimage of its hash; SHA-256 labels computed by the harness",
    "E3 parts for a hash are created only by a running pay command for it",
    "E4 pay outcomes: complete => some part complete; FAILED without warning => nothing pending/complete",
    "E5 after pay returned, the command creates no further parts",
    "E6 waitsendpay answers only once the part is no longer pending, with a documented code",
    "E7 crash = whole-node crash; unanswered HTLCs are replayed; unexecuted RPCs are lost",
    "E8 held amounts sum below 2^64 msat",
    "burst atomicity: one environment event, then the runtime runs to quiescence (DESIGN 2.1)",
    "NodeSim mirrors Node.tla (re-checked by the Observer on every exec line: TOOL mismatch = exit 2)",
]

def load_known():
    p = VERIF + "/known_findings.json"
    if os.path.exists(p):
        return json.load(open(p))
    return {"known": [], "fixed": []}

def write_evidence(pid, tier, seed, level, coverage, wall, violations, assumptions=None):
    os.makedirs(EVID, exist_ok=True)
    ev = {"property_id": pid, "tier": tier, "seed": seed, "level": level, "coverage": coverage,
          "assumptions": assumptions or ASSUME, "wall_s": round(wall, 1), "violations": violations}
    with open(f"{EVID}/{pid}.json", "w") as f:
        json.dump(ev, f, indent=1)

def setup():
    t = time.time()
    os.makedirs(VERIF + "/work", exist_ok=True)
    shutil.copy("/repo/Cargo.lock", VERIF + "/harness/Cargo.lock")
    run.cargo_build()
    models.write_all()
    env = dict(os.environ, JAVA_TOOL_OPTIONS="-DTLA-Library=/verif/spec")
    bad = 0
    mods = sorted(glob.glob(VERIF + "/spec/*.tla")) + sorted(glob.glob(VERIF + "/spec/mc/*.tla"))
    for m in mods:
        p = subprocess.run(["tla-sany", m], cwd=os.path.dirname(m), env=env, capture_output=True, text=True)
        if "*** Errors" in p.stdout or "rror" in p.stderr or p.returncode != 0:
            print("SANY:", m, p.stdout[-800:])
            bad += 1
    print(f"setup: {len(mods)} modules parsed, {bad} with errors, {time.time()-t:.0f}s")
    return 2 if bad else 0

def trace_excerpt(files, runno, maxlines=60):
    for f in files:
        on = False
        out = []
        for line in open(f):
            if '"ev":"reset"' in line:
                on = json.loads(line).get("run") == runno
            if on:
                out.append(json.loads(line))
        if out:
            return out[:maxlines]
    return []

def judge(pid, viol, known):
    """viol: {run: (pre, post, kf)} -> (violations [(run, why)], knownhits [(run, entry)])."""
    bad, kn = [], []
    for runno, (pre, post, kf) in sorted(viol.items()):
        if "TOOL" in pre or "TOOL" in post:
            raise run.ToolError(f"NodeSim and Node.tla disagree in run {runno} (TOOL)")
        if pid in pre:
            bad.append((runno, "violated before any known-finding pattern"))
        elif pid in post:
            ent = [k for k in known["known"] if k["property"] == pid and k["pattern"] in kf]
            if ent:
                kn.append((runno, ent[0]))
            else:
                bad.append((runno, f"violated after pattern(s) {sorted(kf)} that no known finding of {pid} lists"))
    return bad, kn

def save_replay(pid, runno, job, excerpt, why):
    os.makedirs(REPLAYS, exist_ok=True)
    p = f"{REPLAYS}/{pid}_run{runno}.json"
    json.dump({"property": pid, "why": why, "kind": "life", "job": job, "trace": excerpt}, open(p, "w"))
    return p

def check_life(pid, tier, seed):
    t0 = time.time()
    known = load_known()
    wd = f"{VERIF}/work/{pid}_{tier}"
    shutil.rmtree(wd, ignore_errors=True)
    os.makedirs(wd)
    run.cargo_build()
    spec = life.LIFE[pid]
    thorough = tier == "thorough"
    # 1. design verdict: TLC on the bounded instances
    gen = dist = 0
    mstats = {}
    for name in spec["models"] + (spec["tmodels"] if thorough else []):
        g, d, _ = life.tlc_design(name, models.ALLPROPS, wd, 3000 if thorough else 600, workers=14, seed=seed)
        gen += g; dist += d; mstats[name] = {"generated": g, "distinct": d}
    # 2. schedules (TLC edges + random), executed on the real code
    jobs, sstats = life.build_jobs(pid, tier, seed, wd)
    files = run.run_harness(jobs, wd + "/h")
    # 3. implementation verdict: Observer on every recorded trace
    viol, nlines = run.observe(files, wd + "/o")
    bad, kn = judge(pid, viol, known)
    byrun = {j["run"]: j for j in jobs}
    # how faithfully the real code followed the schedules TLC generated from the design
    div_runs = div_steps = 0
    for f in files:
        for line in open(f):
            if line.startswith('{"div":'):
                o = json.loads(line)
                if o["div"] and byrun[o["run"]]["tag"].startswith("tlc:"):
                    div_runs += 1; div_steps += o["div"]
    for (runno, ent) in kn[:5]:
        print(f"KNOWN-FINDING: property={pid} {ent['id']} {ent['what']} (run {runno})")
    if len(kn) > 5:
        print(f"KNOWN-FINDING: property={pid} ... {len(kn)} runs in total match recorded findings")
    samples = []
    for j in (jobs[0], jobs[len(jobs) // 2], jobs[-1]):
        samples.append({"job": {k: j[k] for k in ("run", "tag") if k in j}, "schedule": j.get("sched") or j.get("rand"),
                        "trace_head": trace_excerpt(files, j["run"], 12)})
    cov = {"states": dist, "transitions": gen, "traces_validated_against_impl": len(jobs), "samples": samples,
           "design_instances": mstats, "tlc_schedules_replayed": sstats, "random_schedules": len(jobs) - sum(sstats.values()),
           "trace_lines_judged": nlines, "known_finding_runs": len(kn), "exhaustive": False,
           "tlc_schedules_with_inapplicable_steps": div_runs, "inapplicable_steps": div_steps,
           "rule": "design: every reachable state of each bounded instance (exhaustive within its constants); "
                   "implementation: one run per TLC-sampled edge schedule plus seeded random schedules, each judged line by line"}
    for (runno, why) in bad[:3]:
        p = save_replay(pid, runno, byrun[runno], trace_excerpt(files, runno, 400), why)
        print(f"VIOLATION property={pid} replay={p}")
    write_evidence(pid, tier, seed, "model_checking", cov, time.time() - t0, len(bad))
    shutil.rmtree(wd, ignore_errors=True)
    return 1 if bad else 0

def check(pid, tier, seed):
    if pid in life.LIFE:
        return check_life(pid, tier, seed)
    print("no check registered for", pid)
    return 2

def replay(path):
    r = json.load(open(path))
    if r["kind"] == "life":
        run.cargo_build()
        wd = VERIF + "/work/replay"
        shutil.rmtree(wd, ignore_errors=True)
        files = run.run_harness([r["job"]], wd, nproc=1)
        viol, _ = run.observe(files, wd)
        for line in open(files[0]):
            print(line.rstrip())
        print("violated predicates:", {k: (sorted(v[0]), sorted(v[1]), sorted(v[2])) for k, v in viol.items()})
        pid = r["property"]
        hit = any(pid in v[0] or pid in v[1] for v in viol.values())
        shutil.rmtree(wd, ignore_errors=True)
        return 1 if hit else 0
    return 2
