"""Check orchestration: per-property pipelines, evidence, known findings, exit codes."""
import re
import json, os, time, shutil, subprocess, glob
from . import run, life, models, scen

# root of this verification tree (normally /verif; a snapshot under /root/.vp/runs/<n>/verif for `vp run`)
VERIF = os.path.dirname(os.path.dirname(os.path.dirname(os.path.realpath(__file__))))
# runs against another checkout (VERIF_REPO, seeded-change evaluation) keep their files apart
EVID = VERIF + "/evidence" if not run.TAG else VERIF + "/work/evidence" + run.TAG
REPLAYS = VERIF + "/work/replays" + run.TAG

ASSUME = [
    "E1 datastore semantics per lightning-datastore(7) (modes, generations)",
    "E2 a part completes only with the SHA-256 preimage of its hash; SHA-256 labels computed by the harness",
    "E3 parts for a hash are created only by a running pay command for it",
    "E4 pay outcomes: complete => some part complete; FAILED without warning => nothing pending/complete",
    "E5 after pay returned, the command creates no further parts",
    "E6 waitsendpay answers only once the part is no longer pending, with a documented code",
    "E7 crash = whole-node crash; unanswered HTLCs are replayed; unexecuted RPCs are lost",
    "E8 held amounts sum below 2^64 msat",
    "burst atomicity: one environment event, then the runtime runs to quiescence (DESIGN 2.1)",
    "NodeSim mirrors Node.tla (re-checked by the Observer on every exec line: TOOL mismatch = exit 2)",
]

def load_known():
    p = VERIF + "/known_findings.json"
    if os.path.exists(p):
        return json.load(open(p))
    return {"known": [], "fixed": []}

def write_evidence(pid, tier, seed, level, coverage, wall, violations, assumptions=None):
    os.makedirs(EVID, exist_ok=True)
    ev = {"property_id": pid, "tier": tier, "seed": seed, "level": level, "coverage": coverage,
          "assumptions": assumptions or ASSUME, "wall_s": round(wall, 1), "violations": violations}
    with open(f"{EVID}/{pid}.json", "w") as f:
        json.dump(ev, f, indent=1)

def setup():
    t = time.time()
    os.makedirs(VERIF + "/work", exist_ok=True)
    shutil.copy(run.REPO + "/Cargo.lock", VERIF + "/harness/Cargo.lock")
    run.cargo_build()
    models.write_all()
    env = dict(os.environ, JAVA_TOOL_OPTIONS="-DTLA-Library=" + VERIF + "/spec")
    bad = 0
    mods = sorted(glob.glob(VERIF + "/spec/*.tla")) + sorted(glob.glob(VERIF + "/spec/mc/*.tla"))
    for m in mods:
        if re.search(r"EXTENDS[^\n]*\bApalache\b", open(m).read()):
            # Apalache.tla lives inside apalache.jar, SANY alone cannot resolve it: let Apalache parse and type-check it
            wd = VERIF + "/work/setup_apa"
            p = subprocess.run(["timeout", "300", "apalache-mc", "typecheck", f"--out-dir={wd}", f"--run-dir={wd}/run", m],
                               cwd=os.path.dirname(m), capture_output=True, text=True)
            shutil.rmtree(wd, ignore_errors=True)
            if p.returncode != 0:
                print("APALACHE typecheck:", m, p.stdout[-800:], p.stderr[-400:])
                bad += 1
            continue
        p = subprocess.run(["tla-sany", m], cwd=os.path.dirname(m), env=env, capture_output=True, text=True)
        if "*** Errors" in p.stdout or "rror" in p.stderr or p.returncode != 0:
            print("SANY:", m, p.stdout[-800:])
            bad += 1
    print(f"setup: {len(mods)} modules parsed, {bad} with errors, {time.time()-t:.0f}s")
    return 2 if bad else 0

def trace_excerpt(files, runno, maxlines=60):
    for f in files:
        on = False
        out = []
        for line in open(f):
            if '"ev":"reset"' in line:
                on = json.loads(line).get("run") == runno
            if on:
                out.append(json.loads(line))
        if out:
            return out[:maxlines]
    return []

def judge(pid, viol, known):
    """viol: {run: (pre, post, kf)} -> (violations [(run, why)], knownhits [(run, entry)])."""
    bad, kn = [], []
    for runno, (pre, post, kf) in sorted(viol.items()):
        if "TOOL" in pre or "TOOL" in post:
            raise run.ToolError(f"NodeSim and Node.tla disagree in run {runno} (TOOL)")
        if pid in pre:
            bad.append((runno, "violated before any known-finding pattern"))
        elif pid in post:
            ent = [k for k in known["known"] if k["property"] == pid and k["pattern"] in kf]
            if ent:
                kn.append((runno, ent[0]))
            else:
                bad.append((runno, f"violated after pattern(s) {sorted(kf)} that no known finding of {pid} lists"))
    return bad, kn

def save_replay(pid, runno, job, excerpt, why):
    os.makedirs(REPLAYS, exist_ok=True)
    p = f"{REPLAYS}/{pid}_run{runno}.json"
    json.dump({"property": pid, "why": why, "kind": "life", "job": job, "trace": excerpt}, open(p, "w"))
    return p

def conformance(files, wd, cap_lines=0):
    """Group the recorded runs by the design instance whose scenario they ran (tag tlc:<name> / rnd:<name>) and check
    each group against CF_<name> (Trampoline.tla driven by the trace)."""
    groups = {}
    for f in files:
        cur = None
        for line in open(f):
            if line.startswith('{"cfg"') or '"ev":"reset"' in line[:400]:
                o = json.loads(line)
                tag = o.get("tag", "")
                cur = tag.split(":", 1)[1] if tag.startswith(("tlc:", "rnd:")) else None
                if cur is not None and not os.path.exists(f"{VERIF}/spec/mc/CF_{cur}.tla"):
                    cur = None
            if cur is not None:
                groups.setdefault(cur, []).append(line)
    res = {}
    from concurrent.futures import ThreadPoolExecutor
    tasks = []
    for name, lines in groups.items():
        if cap_lines and len(lines) > cap_lines:
            # conformance is checked on a prefix of the runs (all of them in the thorough tier)
            cut = max(k for k, ln in enumerate(lines[:cap_lines]) if '"ev":"reset"' in ln[:400])
            lines = lines[:cut]
        # split at run boundaries into up to 4 files
        starts = [k for k, ln in enumerate(lines) if '"ev":"reset"' in ln[:400]]
        nchunks = min(4, max(1, len(starts) // 50))
        bounds = [starts[(len(starts) * c) // nchunks] for c in range(nchunks)] + [len(lines)]
        for c in range(nchunks):
            pth = f"{wd}/cf_{name}_{c}.ndjson"
            with open(pth, "w") as fo:
                fo.writelines(lines[bounds[c]:bounds[c + 1]])
            tasks.append((name, pth, c))
        res[name] = {"runs": len(starts), "lines": len(lines), "drift": []}
    def one(t):
        name, pth, c = t
        ok, drifts, out = run.conform(name, pth, f"{wd}/cfm_{name}_{c}")
        if not ok:
            raise run.ToolError(f"conformance run of CF_{name} failed:\n" + out[-2500:])
        ls = open(pth).read().splitlines()
        return name, [(ln, evn, ls[ln - 1][:300]) for (ln, evn) in drifts]
    with ThreadPoolExecutor(max_workers=8) as ex:
        for name, dr in ex.map(one, tasks):
            res[name]["drift"] += dr
    return res

def check_life(pid, tier, seed):
    t0 = time.time()
    known = load_known()
    wd = f"{VERIF}/work/{pid}_{tier}{run.TAG}"
    shutil.rmtree(wd, ignore_errors=True)
    os.makedirs(wd)
    run.cargo_build()
    spec = life.LIFE[pid]
    thorough = tier == "thorough"
    # 1+2. design verdict (TLC on the bounded instances) and schedules (TLC edges + random) for the real code
    jobs, sstats, mstats = life.build_jobs(pid, tier, seed, wd)
    for lname in spec.get("live", []):
        lg, ld = life.tlc_live(lname, wd)
        mstats["liveness:" + lname] = {"generated": lg, "distinct": ld, "temporal_property": "Answered (held ~> answered) under weak fairness"}
    gen = sum(x["generated"] for x in mstats.values()); dist = sum(x["distinct"] for x in mstats.values())
    try:
        files = run.run_harness(jobs, wd + "/h")
    except run.PluginDied as e:
        # the plugin's code took the whole process down (allocation failure, abort, stack overflow): every HTLC it held
        # and every later one goes unanswered.  That is a verdict for C06; the other properties cannot be judged.
        if pid != "C06":
            raise run.ToolError(f"the plugin's code kills the process in run {e.job.get('run')} ({e.what}); see C06")
        os.makedirs(REPLAYS, exist_ok=True)
        pth = f"{REPLAYS}/{pid}_died.json"
        json.dump({"property": pid, "why": "the process running the plugin died: " + e.what, "kind": "life", "job": e.job, "trace": []}, open(pth, "w"))
        print(f"VIOLATION property={pid} replay={pth}")
        write_evidence(pid, tier, seed, "model_checking", {"states": dist, "transitions": gen, "traces_validated_against_impl": len(jobs),
                       "plugin_process_died_in_run": e.job.get("run"), "exhaustive": False}, time.time() - t0, 1)
        return 1
    # 3. implementation verdict: Observer on every recorded trace
    viol, nlines = run.observe(files, wd + "/o")
    bad, kn = judge(pid, viol, known)
    byrun = {j["run"]: j for j in jobs}
    # 3b. amplification: a run in which ANOTHER predicate failed is a lead.  It is executed again with an epilogue
    #     before the drain (crash + replay of every HTLC / a further fully funding set) and judged for this property.
    leads = [r for r, (pre, post, kf) in viol.items() if pid not in pre and pid not in post and not kf and (pre | post) - {"PAYSHAPE"}]
    amplified = 0
    # (not for the direct-call runs of the provider: a lifecycle paying the same invoice next to a direct caller of
    #  pay() would break assumption E3, and the lifecycle predicates mean nothing in those runs)
    if leads and not bad and not spec.get("direct"):
        ajobs = []
        for r in sorted(leads)[:150]:
            for epi in (["crash_replay"], ["probe"], ["crash_replay", "probe"]):
                j = json.loads(json.dumps(byrun[r])); j["run"] = 1000000 + len(ajobs) + 1; j["epilogue"] = epi
                j["tag"] = "amplified:" + j.get("tag", "")
                ajobs.append(j)
        afiles = run.run_harness(ajobs, wd + "/ha")
        aviol, al = run.observe(afiles, wd + "/oa")
        abad, akn = judge(pid, aviol, known)
        amplified = len(ajobs)
        for j in ajobs:
            byrun[j["run"]] = j
        bad += abad; kn += akn; files = files + afiles; nlines += al; jobs = jobs + ajobs
    # 3c. C11 also on the real binary: the timeout that governs incomplete sets is the configured one
    e2e_viol = []
    if "e2e_mpp" in spec.get("extra", []):
        from . import e2e
        est = e2e.mpp_check(seed, tier, wd)
        os.makedirs(REPLAYS, exist_ok=True)
        for n, (runno, text, rec) in enumerate(est["violations"][:2]):
            pth = f"{REPLAYS}/{pid}_e2e{n}.json"
            json.dump({"property": pid, "kind": "config", "what": text, "record": rec}, open(pth, "w"))
            print(f"VIOLATION property={pid} replay={pth}")
        e2e_viol = est["violations"]
    if "e2e_burst" in spec.get("extra", []):
        from . import e2e
        est = e2e.burst_check(seed, tier, wd)
        os.makedirs(REPLAYS, exist_ok=True)
        for n, (runno, text, rec) in enumerate(est["violations"][:2]):
            pth = f"{REPLAYS}/{pid}_e2e{n}.json"
            json.dump({"property": pid, "kind": "e2e", "what": text, "record": rec}, open(pth, "w"))
            print(f"VIOLATION property={pid} replay={pth}")
        e2e_viol = est["violations"]
    if "e2e_lostreply" in spec.get("extra", []):
        from . import e2e
        est = e2e.lostreply_check(seed, tier, wd)
        os.makedirs(REPLAYS, exist_ok=True)
        for n, (runno, text, rec) in enumerate(est["violations"][:2]):
            pth = f"{REPLAYS}/{pid}_e2e{n}.json"
            json.dump({"property": pid, "kind": "e2e", "what": text, "record": rec}, open(pth, "w"))
            print(f"VIOLATION property={pid} replay={pth}")
        e2e_viol = est["violations"]
    if "e2e_codes" in spec.get("extra", []):
        from . import e2e
        est = e2e.codes_check(seed, tier, wd)
        os.makedirs(REPLAYS, exist_ok=True)
        for n, (runno, text, rec) in enumerate(est["violations"][:2]):
            pth = f"{REPLAYS}/{pid}_e2e{n}.json"
            json.dump({"property": pid, "kind": "e2e", "what": text, "record": rec}, open(pth, "w"))
            print(f"VIOLATION property={pid} replay={pth}")
        e2e_viol = est["violations"]
    if "e2e_iso" in spec.get("extra", []):
        from . import e2e
        est = e2e.iso_check(seed, tier, wd)
        os.makedirs(REPLAYS, exist_ok=True)
        for n, (runno, text, rec) in enumerate(est["violations"][:2]):
            pth = f"{REPLAYS}/{pid}_e2e{n}.json"
            json.dump({"property": pid, "kind": "e2e", "what": text, "record": rec}, open(pth, "w"))
            print(f"VIOLATION property={pid} replay={pth}")
        e2e_viol = est["violations"]
    # 4. conformance verdict: the recorded runs of the instances' scenarios must be behaviours of Trampoline.tla
    conf = conformance(files, wd, 0 if thorough else 60000)
    for name, st in conf.items():
        for (ln, evn, excerpt) in st["drift"][:2]:
            print(f"DRIFT: instance {name}: the real code took a step Trampoline.tla cannot explain: {excerpt}")
    # how faithfully the real code followed the schedules TLC generated from the design
    div_runs = div_steps = 0
    for f in files:
        for line in open(f):
            if line.startswith('{"div":'):
                o = json.loads(line)
                if o["div"] and byrun[o["run"]]["tag"].startswith("tlc:"):
                    div_runs += 1; div_steps += o["div"]
    for (runno, ent) in kn[:5]:
        print(f"KNOWN-FINDING: property={pid} {ent['id']} {ent['what']} (run {runno})")
    if len(kn) > 5:
        print(f"KNOWN-FINDING: property={pid} ... {len(kn)} runs in total match recorded findings")
    # predicates beyond the listed properties (AUDIT, PAYSHAPE, NOTIFY) and the other properties' predicates: reported, never a VIOLATION here
    others = {}
    for r, (pre, post, kf) in viol.items():
        for n in pre - {pid}:      # (before any known-finding pattern occurred in the run)
            others[n] = others.get(n, 0) + 1
    for n in sorted(set(others) & ({"AUDIT", "PAYSHAPE", "NOTIFY"} if not spec.get("direct") else set())):
        print(f"NOTE: growth predicate {n} does not hold in {others[n]} run(s) (not one of the listed properties)")
    samples = []
    for j in (jobs[0], jobs[len(jobs) // 2], jobs[-1]):
        samples.append({"job": {k: j[k] for k in ("run", "tag") if k in j}, "schedule": j.get("sched") or j.get("rand"),
                        "trace_head": trace_excerpt(files, j["run"], 12)})
    cov = {"states": dist, "transitions": gen, "traces_validated_against_impl": len(jobs), "samples": samples,
           "design_instances": mstats, "tlc_schedules_replayed": sstats, "random_schedules": len(jobs) - sum(sstats.values()),
           "trace_lines_judged": nlines, "known_finding_runs": len(kn), "exhaustive": False,
           # (leads depend on which edges TLC's random sampling printed: not a measure of the work done)
           "amplification": f"{len(leads)} lead run(s) in which another predicate failed, {amplified} amplified re-run(s)",
           "runs_in_which_another_predicate_failed": others,
           "conformance": {n: {"runs": st["runs"], "lines": st["lines"], "drift_lines": len(st["drift"]),
                               "verdict": "accepted" if not st["drift"] else "drift"} for n, st in conf.items()},
           "tlc_schedules_with_inapplicable_steps": div_runs, "inapplicable_steps": div_steps,
           "rule": "design: every reachable state of each bounded instance (exhaustive within its constants); "
                   "implementation: one run per TLC-sampled edge schedule plus seeded random schedules, each judged line by line"}
    for (runno, why) in bad[:3]:
        p = save_replay(pid, runno, byrun[runno], trace_excerpt(files, runno, 400), why)
        print(f"VIOLATION property={pid} replay={p}")
    write_evidence(pid, tier, seed, "model_checking", cov, time.time() - t0, len(bad) + len(e2e_viol))
    if not os.environ.get("VF_KEEP"):
        shutil.rmtree(wd, ignore_errors=True)
    return 1 if (bad or e2e_viol) else 0

def tlc_plain(spec, cfg, workdir, timeout=900, workers=12):
    """TLC on a small side specification (Fee, Tlv, Wire, ...). Returns (generated, distinct, out)."""
    os.makedirs(workdir, exist_ok=True)
    meta = f"{workdir}/meta_{os.path.basename(cfg)}"
    p = subprocess.run(["timeout", str(timeout), "tlc", "-workers", str(workers), "-metadir", meta, "-cleanup",
                        "-noGenerateSpecTE", "-config", cfg, spec], cwd=VERIF + "/spec", capture_output=True, text=True)
    shutil.rmtree(meta, ignore_errors=True)
    st = life.STATS.search(p.stdout)
    if p.returncode == 124:
        raise run.ToolError(f"TLC timed out on {spec}")
    if "Error:" in p.stdout or not st:
        raise run.ToolError(f"{spec}/{cfg}: TLC reports an error on the specification itself:\n" + p.stdout[-3000:])
    return int(st.group(1)), int(st.group(2)), p.stdout

def check_c12(tier, seed):
    """C12: Fee.tla exhaustive at reduced width; the real function at 64 bits in both builds judged by
    FeeTrace.tla (BigNat); the encoding of the failure; the lifecycle clauses via the Observer."""
    from . import feegen
    t0 = time.time()
    pid = "C12"
    known = load_known()
    wd = f"{VERIF}/work/C12_{tier}{run.TAG}"
    shutil.rmtree(wd, ignore_errors=True); os.makedirs(wd)
    run.cargo_build(); run.cargo_build("wrap")
    thorough = tier == "thorough"
    g, d, _ = tlc_plain("Fee.tla", "Fee.cfg" if not thorough else "FeeBig.cfg", wd)
    vs = feegen.vectors(seed, 60000 if thorough else 8000) + feegen.enc_vectors(seed, 3000 if thorough else 900)
    with open(wd + "/v.ndjson", "w") as f:
        for v in vs:
            f.write(json.dumps(v) + "\n")
    outs = []
    for prof in ("debug", "wrap"):
        o = f"{wd}/o_{prof}.ndjson"
        p = subprocess.run([f"{run.TDIR}/{prof}/vfh", "fee", wd + "/v.ndjson", o], capture_output=True, text=True)
        if p.returncode != 0:
            raise run.ToolError("vfh fee failed: " + p.stderr[-1000:])
        outs.append(o)
    bad = []; k4 = 0; nlines = 0
    samples = []
    for o in outs:
        rc, out = run.tlc_trace("FeeTrace.tla", "FeeTrace.cfg", o, wd + "/ft")
        done = run.tagged(out, "FEEDONE")
        if not done:
            raise run.ToolError("FeeTrace did not finish:\n" + out[-2000:])
        nums = [int(x) for x in re.findall(r"-?\d+", done[0][1])]
        nlines += nums[0]; k4 += nums[2]
        lines = open(o).read().splitlines()
        samples.append(json.loads(lines[0])); samples.append(json.loads(lines[len(lines) // 3]))
        for idx, text in run.tagged(out, "FEEVIOL"):
            bad.append((o, idx, json.loads(lines[idx - 1])))
    # lifecycle clauses (failure carries the policy; first HTLC of a fresh payment)
    jobs, sstats, mstats = life.build_jobs(pid, tier, seed, wd)
    g += sum(x["generated"] for x in mstats.values()); d += sum(x["distinct"] for x in mstats.values())
    files = run.run_harness(jobs, wd + "/h")
    viol, ll = run.observe(files, wd + "/o")
    lbad, kn = judge(pid, viol, known)
    byrun = {j["run"]: j for j in jobs}
    nviol = 0
    if k4:
        ent = [k for k in known["known"] if k["id"] == "K4"]
        if ent:
            print(f"KNOWN-FINDING: property=C12 K4 {ent[0]['what']} ({k4} vectors)")
        else:
            bad.append(("K4", 0, {"what": "MulOverflowReject deviation not listed as known finding"}))
    os.makedirs(REPLAYS, exist_ok=True)
    for (o, idx, rec) in bad[:3]:
        p = f"{REPLAYS}/C12_vec{idx}.json"
        json.dump({"property": pid, "kind": "fee", "record": rec}, open(p, "w"))
        print(f"VIOLATION property=C12 replay={p}")
    for (runno, why) in lbad[:3]:
        p = save_replay(pid, runno, byrun[runno], trace_excerpt(files, runno, 400), why)
        print(f"VIOLATION property=C12 replay={p}")
    nviol = len(bad) + len(lbad)
    cov = {"states": d, "transitions": g, "traces_validated_against_impl": len(jobs) + nlines, "samples": samples,
           "fee_vectors_per_build": len(vs), "builds": ["overflow-checks", "wrapping"], "k4_vectors": k4,
           "lifecycle_runs": len(jobs), "lifecycle_lines": ll, "exhaustive": False,
           "rule": "Fee.tla: all (total, amount, base, ppm) tuples at reduced word width (exhaustive); real function: boundary "
                   "vectors of every checked operation and of the predicate itself plus seeded random ones, in both builds, each "
                   "compared with the exact predicate computed over BigNat by FeeTrace.tla"}
    write_evidence(pid, tier, seed, "model_checking", cov, time.time() - t0, nviol)
    if not os.environ.get("VF_KEEP"):
        shutil.rmtree(wd, ignore_errors=True)
    return 1 if nviol else 0

def check_c18(tier, seed):
    """C18: Tlv.tla round-trip theorems on all short byte strings (exhaustive); the real codec in both builds on
    those strings and on structurally generated streams, judged by TlvTrace.tla."""
    from . import tlvgen
    t0 = time.time()
    pid = "C18"
    wd = f"{VERIF}/work/C18_{tier}{run.TAG}"
    shutil.rmtree(wd, ignore_errors=True); os.makedirs(wd)
    run.cargo_build(); run.cargo_build("wrap")
    thorough = tier == "thorough"
    g, d, _ = tlc_plain("TlvMC.tla", "TlvMC.cfg" if not thorough else "TlvMCBig.cfg", wd)
    vs = tlvgen.vectors(seed, 120000 if thorough else 14000, 5 if thorough else 4)
    with open(wd + "/v.ndjson", "w") as f:
        for v in vs:
            f.write(json.dumps(v) + "\n")
    bad = []; n = 0; samples = []
    chunks = run.split(vs, 8)
    for prof in ("debug", "wrap"):
        outs = []
        for k, ch in enumerate(chunks):
            i = f"{wd}/v_{prof}{k}.ndjson"; o = f"{wd}/o_{prof}{k}.ndjson"
            with open(i, "w") as f:
                for v in ch:
                    f.write(json.dumps(v) + "\n")
            p = subprocess.run([f"{run.TDIR}/{prof}/vfh", "tlv", i, o], capture_output=True, text=True)
            if p.returncode != 0:
                raise run.ToolError("vfh tlv failed: " + p.stderr[-1000:])
            outs.append(o)
        from concurrent.futures import ThreadPoolExecutor
        with ThreadPoolExecutor(max_workers=8) as ex:
            res = list(ex.map(lambda ko: (ko[1],) + run.tlc_trace("TlvTrace.tla", "TlvTrace.cfg", ko[1], f"{wd}/tt{prof}{ko[0]}"), enumerate(outs)))
        for o, rc, out in res:
            done = run.tagged(out, "TLVDONE")
            if not done:
                raise run.ToolError("TlvTrace did not finish:\n" + out[-2000:])
            lines = open(o).read().splitlines()
            n += len(lines)
            samples.append(json.loads(lines[len(lines) // 2]))
            for idx, text in run.tagged(out, "TLVVIOL"):
                bad.append(json.loads(lines[idx - 1]))
    os.makedirs(REPLAYS, exist_ok=True)
    for k, rec in enumerate(bad[:3]):
        p = f"{REPLAYS}/C18_vec{k}.json"
        json.dump({"property": pid, "kind": "tlv", "record": rec}, open(p, "w"))
        print(f"VIOLATION property=C18 replay={p}")
    cov = {"states": d, "transitions": g, "traces_validated_against_impl": n, "samples": samples[:4],
           "vectors_per_build": len(vs), "builds": ["overflow-checks", "wrapping"], "exhaustive": False,
           "rule": "Tlv.tla: round-trip theorems on ALL byte strings up to the bound over an alphabet containing every BigSize "
                   "prefix and boundary byte (exhaustive); real codec: the same strings through both entry points, structurally "
                   "generated valid streams (every BigSize width/boundary), truncation at every offset, non-canonical encodings, "
                   "tu64 of every length 0-12, in both builds; each call judged by TlvTrace.tla"}
    write_evidence(pid, tier, seed, "model_checking", cov, time.time() - t0, len(bad),
                   ["BOLT 1 validity as written in Tlv.tla (canonical BigSize, strictly increasing types)",
                    "decoded records are read from the derived Debug output of SerializedTlvStream (its fields are private)"])
    if not os.environ.get("VF_KEEP"):
        shutil.rmtree(wd, ignore_errors=True)
    return 1 if bad else 0

def check_c20(tier, seed):
    """C20: BlockWatcher.tla exhaustive; schedules from its state graph and random ones on the real BlockWatcher;
    BlockTrace.tla (the specification driven by the trace) validates every step and evaluates C20 in every state."""
    import random
    t0 = time.time()
    pid = "C20"
    wd = f"{VERIF}/work/C20_{tier}{run.TAG}"
    shutil.rmtree(wd, ignore_errors=True); os.makedirs(wd)
    run.cargo_build()
    thorough = tier == "thorough"
    # Engine C in the background (it has to sit through one real poll interval): the whole binary, chain grows unnoticed
    from . import e2e
    from concurrent.futures import ThreadPoolExecutor as _TPE
    _ex = _TPE(max_workers=1)
    poll_future = _ex.submit(e2e.poll_check, seed, tier, wd)
    g, d, _ = tlc_plain("BlockWatcher.tla", "BlockWatcher.cfg", wd)
    # unbounded: the height invariant as an inductive invariant, discharged by Apalache (any height, any number of steps)
    apa = []
    for label, args in (("Init => IndInv", ["--init=Init", "--inv=IndInv", "--length=0"]),
                        ("IndInv /\\ Next => IndInv'", ["--init=IndInit", "--inv=IndInv", "--length=1"]),
                        ("IndInv => KnownIsMax", ["--init=IndInit", "--inv=KnownIsMax", "--length=0"]),
                        ("IndInv => CaughtUp", ["--init=IndInit", "--inv=CaughtUp", "--length=0"])):
        pa = subprocess.run(["timeout", "600", "apalache-mc", "check", "--cinit=ConstInit", f"--out-dir={wd}/apa", f"--run-dir={wd}/apa/run"] + args +
                            [VERIF + "/spec/BlockWatcherA.tla"], cwd=wd, capture_output=True, text=True)
        if "EXITCODE: OK" not in pa.stdout:
            raise run.ToolError(f"Apalache could not discharge `{label}` of BlockWatcherA.tla (a defect of the specification, not of the code):\n" + pa.stdout[-1500:])
        apa.append(label)
    # schedules from the specification
    cfg = open(VERIF + "/spec/BlockSched.cfg").read().replace("EmitRate = 20", f"EmitRate = {2 if thorough else 25}")
    open(wd + "/BlockSched.cfg", "w").write(cfg)
    p = subprocess.run(["timeout", "900", "tlc", "-workers", "4", "-seed", str(seed), "-metadir", wd + "/ms", "-cleanup", "-noGenerateSpecTE",
                        "-config", wd + "/BlockSched.cfg", "BlockSched.tla"], cwd=VERIF + "/spec", capture_output=True, text=True)
    jobs = []
    for line in p.stdout.splitlines():
        mm = life.SCHED.match(line.strip())
        if mm:
            evs = json.loads(mm.group(1).replace('\\"', '"'))
            jobs.append({"run": len(jobs) + 1, "h0": evs[0]["h"], "sched": evs[1:]})
    if not jobs:
        raise run.ToolError("no schedules from BlockSched:\n" + p.stdout[-2000:])
    nsched = len(jobs)
    rng = random.Random(seed)
    for k in range(6000 if thorough else 800):
        hs = sorted(rng.sample(range(1, 40), 5))
        jobs.append({"run": len(jobs) + 1, "h0": rng.choice(hs), "seed": rng.getrandbits(40), "steps": rng.randint(10, 60), "heights": hs})
    chunks = run.split(jobs, 12)
    outs = []
    for k, ch in enumerate(chunks):
        i = f"{wd}/j{k}.ndjson"; o = f"{wd}/t{k}.ndjson"
        with open(i, "w") as f:
            for j in ch:
                f.write(json.dumps(j) + "\n")
        pr = subprocess.run([run.VFH, "blk", i, o], capture_output=True, text=True)
        if pr.returncode != 0:
            raise run.ToolError("vfh blk failed: " + pr.stderr[-1500:])
        outs.append(o)
    conf_outs = list(outs)
    # height sources at the very same time, on real threads (atomicity of the update); judged black-box only
    mt_rounds = 60000 if thorough else 12000
    mj = [{"run": 900000 + k, "mt": {"rounds": mt_rounds // 4, "workers": w, "seed": seed * 10 + k}} for k, w in enumerate((2, 4, 8, 16))]
    for k, j in enumerate(mj):
        i = f"{wd}/mj{k}.ndjson"; o = f"{wd}/mt{k}.ndjson"
        open(i, "w").write(json.dumps(j) + "\n")
        pr = subprocess.run([run.VFH, "blk", i, o], capture_output=True, text=True)
        if pr.returncode != 0:
            raise run.ToolError("vfh blk (mt) failed: " + pr.stderr[-1500:])
        outs.append(o)
    from concurrent.futures import ThreadPoolExecutor
    # implementation verdict: black-box judge
    with ThreadPoolExecutor(max_workers=12) as ex:
        res = list(ex.map(lambda ko: (ko[1],) + run.tlc_trace("BlockObs.tla", "BlockObs.cfg", ko[1], f"{wd}/bo{ko[0]}"), enumerate(outs)))
    bad = []; nlines = 0; drift = []
    for o, rc, out in res:
        lines = open(o).read().splitlines()
        nlines += len(lines)
        if "No error has been found" not in out:
            raise run.ToolError("BlockObs failed:\n" + out[-2000:])
        for runno, text in run.tagged(out, "BLKVIOL"):
            at = next(k for k, ln in enumerate(lines) if '"ev":"reset"' in ln and f'"run":{runno}' in ln.replace(" ", "")) + 2
            bad.append((o, at, text))
    # conformance verdict: the trace must be a behaviour of BlockWatcher.tla
    with ThreadPoolExecutor(max_workers=12) as ex:
        res = list(ex.map(lambda ko: (ko[1],) + run.tlc_trace("BlockTrace.tla", "BlockTrace.cfg", ko[1], f"{wd}/bt{ko[0]}"), enumerate(conf_outs)))
    for o, rc, out in res:
        if "BLKSTUCK" in out:
            mm = [x for x in out.splitlines() if "BLKSTUCK" in x][0]
            drift.append((o, int(mm.split(",")[1])))
        elif "is violated" in out:
            drift.append((o, 0))
        elif "No error has been found" not in out:
            raise run.ToolError("BlockTrace failed:\n" + out[-2000:])
    def run_of(o, at):
        lines = open(o).read().splitlines()
        k = at - 1
        while k > 0 and '"ev":"reset"' not in lines[min(k, len(lines) - 1)]:
            k -= 1
        end = k + 1
        while end < len(lines) and '"ev":"end"' not in lines[end]:
            end += 1
        return [json.loads(x) for x in lines[k:end + 1]]
    os.makedirs(REPLAYS, exist_ok=True)
    for n, (o, at, what) in enumerate(bad[:3]):
        pth = f"{REPLAYS}/C20_{n}.json"
        json.dump({"property": pid, "kind": "blk", "what": what, "trace": run_of(o, at)}, open(pth, "w"))
        print(f"VIOLATION property=C20 replay={pth}")
    for (o, at) in drift[:3]:
        print(f"DRIFT: the real BlockWatcher took a step BlockWatcher.tla cannot explain (line {at} of {o})")
    est = poll_future.result()
    for n, (runno, text, rec) in enumerate(est["violations"][:2]):
        pth = f"{REPLAYS}/C20_e2e{n}.json"
        json.dump({"property": pid, "kind": "e2e", "what": text, "record": rec}, open(pth, "w"))
        print(f"VIOLATION property=C20 replay={pth}")
        bad.append((pth, 0, text))
    samples = [run_of(outs[0], 1)[:14], run_of(outs[-1], 1)[:14]]
    cov = {"states": d, "transitions": g, "traces_validated_against_impl": len(jobs), "samples": samples,
           "tlc_schedules_replayed": nsched, "random_schedules": len(jobs) - nsched, "concurrent_rounds_on_real_threads": mt_rounds,
           "apalache_obligations_discharged": apa, "trace_lines_validated": nlines, "real_binary_poll_interval_scenarios": est["runs"],
           "conformance": "drift" if drift else "accepted", "exhaustive": False,
           "rule": "BlockWatcher.tla: all interleavings of poll replies, failed polls, stale/repeated/ahead notifications and node "
                   "growth within the constants (exhaustive); real BlockWatcher: schedules sampled from every explored edge plus "
                   "seeded random ones; every recorded step must be the specification's action with the same height and the same "
                   "getinfo calls, and C20's invariants hold in every state of the walk"}
    write_evidence(pid, tier, seed, "model_checking", cov, time.time() - t0, len(bad),
                   ["one tick = 20 s of the paused tokio clock (POLL_INTERVAL = 3 ticks)", "getinfo answered by NodeSim"])
    if not os.environ.get("VF_KEEP"):
        shutil.rmtree(wd, ignore_errors=True)
    return 1 if bad else 0

def check_c17(tier, seed):
    """C17: Wire.tla (framing buffer, dispatch, out-of-order completion, channel, single writer) exhaustive;
    the real Builder/PluginDriver over in-memory pipes under systematic and random chunkings and completion
    orders, judged by WireTrace.tla; the real binary's stdout framing under concurrent logging (Engine C)."""
    from . import wiregen
    t0 = time.time()
    pid = "C17"
    wd = f"{VERIF}/work/C17_{tier}{run.TAG}"
    shutil.rmtree(wd, ignore_errors=True); os.makedirs(wd)
    run.cargo_build()
    thorough = tier == "thorough"
    g, d, _ = tlc_plain("WireMC.tla", "WireMC.cfg", wd)
    js = wiregen.jobs(seed, 4000 if thorough else 500) + wiregen.cut_jobs(seed, 3000 if thorough else 300) \
        + wiregen.burst_jobs(seed, 1500 if thorough else 200)
    if not thorough:
        # every single cut position is kept in quick too, but spread over the seeds: a third per run
        cj = [j for j in js if j["run"] >= 100000 and len(j["steps"]) == 4]
        keep = set(id(j) for k, j in enumerate(cj) if k % 3 == seed % 3)
        js = [j for j in js if not (j["run"] >= 100000 and len(j["steps"]) == 4) or id(j) in keep]
    for k, j in enumerate(js):
        j["run"] = k + 1
    chunks = run.split(js, 12)
    outs = []
    for k, ch in enumerate(chunks):
        i = f"{wd}/j{k}.ndjson"; o = f"{wd}/t{k}.ndjson"
        with open(i, "w") as f:
            for j in ch:
                f.write(json.dumps(j) + "\n")
        pr = subprocess.run([run.VFH, "wire", i, o], capture_output=True, text=True)
        if pr.returncode != 0:
            raise run.ToolError("vfh wire failed: " + pr.stderr[-1500:])
        outs.append(o)
    from concurrent.futures import ThreadPoolExecutor
    with ThreadPoolExecutor(max_workers=12) as ex:
        res = list(ex.map(lambda ko: (ko[1],) + run.tlc_trace("WireTrace.tla", "WireTrace.cfg", ko[1], f"{wd}/wt{ko[0]}"), enumerate(outs)))
    bad = []; nlines = 0
    byrun = {j["run"]: j for j in js}
    for o, rc, out in res:
        nlines += sum(1 for _ in open(o))
        if "No error has been found" not in out:
            raise run.ToolError("WireTrace failed:\n" + out[-2000:])
        for runno, text in run.tagged(out, "WIREVIOL"):
            bad.append((runno, text))
    # Engine C: the real binary, chunked stdin, trace logging racing with replies
    from . import e2e
    e2e_stats = e2e.wire_check(seed, tier, wd)
    bad += e2e_stats["violations"]
    os.makedirs(REPLAYS, exist_ok=True)
    for n, (runno, what) in enumerate(bad[:3]):
        pth = f"{REPLAYS}/C17_{n}.json"
        json.dump({"property": pid, "kind": "wire", "what": what, "job": byrun.get(runno)}, open(pth, "w"))
        print(f"VIOLATION property=C17 replay={pth}")
    samples = [{"msgs": js[0]["msgs"], "steps": js[0]["steps"][:12]}, {"msgs": js[-1]["msgs"], "steps": js[-1]["steps"][:12]}]
    cov = {"states": d, "transitions": g, "traces_validated_against_impl": len(js) + e2e_stats["runs"], "samples": samples,
           "wire_runs": len(js), "trace_lines_judged": nlines, "real_binary_runs": e2e_stats["runs"],
           "real_binary_frames": e2e_stats["frames"], "exhaustive": False,
           "rule": "Wire.tla: every chunking and completion order of a 3-message stream with lone newlines and multi-byte characters "
                   "(exhaustive); real driver: every single cut position of a 3-message stream (over three seeds in quick, all in "
                   "thorough), random triple cuts, byte-by-byte windows, random chunk sizes, all with shuffled handler completion "
                   "orders and error results; real binary: chunked stdin with trace logging on, stdout split on blank lines"}
    write_evidence(pid, tier, seed, "model_checking", cov, time.time() - t0, len(bad),
                   ["lightningd never sends an empty line inside a message", "in-memory pipes stand in for stdin/stdout in Engine A-wire; Engine C uses real pipes"])
    if not os.environ.get("VF_KEEP"):
        shutil.rmtree(wd, ignore_errors=True)
    return 1 if bad else 0

def check_c19(tier, seed):
    """C19: Config.tla states what each option assignment must lead to; the real binary is started with each
    assignment and its observable parameters are compared by ConfigTrace.tla."""
    from . import e2e
    t0 = time.time()
    pid = "C19"
    wd = f"{VERIF}/work/C19_{tier}{run.TAG}"
    shutil.rmtree(wd, ignore_errors=True); os.makedirs(wd)
    run.cargo_build()
    st = e2e.config_check(seed, tier, wd)
    os.makedirs(REPLAYS, exist_ok=True)
    for n, (runno, what, rec) in enumerate(st["violations"][:3]):
        pth = f"{REPLAYS}/C19_{n}.json"
        json.dump({"property": pid, "kind": "config", "what": what, "record": rec}, open(pth, "w"))
        print(f"VIOLATION property=C19 replay={pth}")
    cov = {"evaluations": st["runs"], "distinct_nontrivial": st["started"], "samples": st["samples"],
           "traces_validated_against_impl": st["runs"], "states": st["runs"], "transitions": st["runs"],
           "rule": "one start of the real binary per option assignment: every listed boundary value of every integer option alone, "
                   "swapped/equal/adjacent deltas, flag combinations, seeded random assignments (thorough: the full delta x delta "
                   "product); non-trivial = assignments the plugin has to run with (its parameters are then read back through the "
                   "fee failure, the pay RPC for a far and a near expiry, a self-route-hint invoice and the measured MPP timeout)",
           "exhaustive": False}
    write_evidence(pid, tier, seed, "model_checking", cov, time.time() - t0, len(st["violations"]),
                   ["option values reach the plugin as JSON integers in the init call (64-bit signed)", "the fake lightningd of Engine C",
                    "MPP timeout measured in real time with a tolerance of -0.2 s / +1.2 s"])
    if not os.environ.get("VF_KEEP"):
        shutil.rmtree(wd, ignore_errors=True)
    return 1 if st["violations"] else 0

def selftest():
    """The framework checking itself (DESIGN.md 5.7): (1) the properties are not vacuous on the model - instances of the
    specification that model the pinned, defective code are rejected by TLC; (2) the binding is real - corrupting one
    field of a recorded trace or dropping one line makes the conformance specification report DRIFT at that line, and
    corrupting a node-side result makes the Observer report TOOL."""
    wd = f"{VERIF}/work/selftest{run.TAG}"
    shutil.rmtree(wd, ignore_errors=True); os.makedirs(wd)
    run.cargo_build()
    ok = True
    def expect(label, cond):
        nonlocal ok
        print(("ok   " if cond else "FAIL ") + label)
        ok = ok and cond
    # 1. pinned instances must be rejected
    for name, what in (("pinned_d5", "PC02"), ("pinned_d5p", "PC15"), ("pinned_d4w", "C09design"), ("rfaults", "PC06")):
        m = models.MODELS[name]; models.consts_of(name)
        cfgp = f"{wd}/{name}.cfg"
        open(cfgp, "w").write(models.check_cfg(m, m["props"] or models.ALLPROPS))
        env = dict(os.environ, JAVA_TOOL_OPTIONS="-DTLA-Library=" + VERIF + "/spec")
        p = subprocess.run(["timeout", "900", "tlc", "-workers", "8", "-metadir", f"{wd}/m_{name}", "-cleanup", "-noGenerateSpecTE",
                            "-config", cfgp, f"{VERIF}/spec/mc/MC_{name}.tla"], cwd=VERIF + "/spec/mc", env=env, capture_output=True, text=True)
        expect(f"instance {name} (defect modelled) violates {what}", f"{what} is violated" in p.stdout)
    # 2. the binding
    scheds = life.schedules_from_tlc("restart", wd, 2000, 1, 600, 150)
    sc = models.scenario("restart")
    jobs = [{"run": k + 1, "scen": sc, "sched": s_, "tag": "tlc:restart"} for k, s_ in enumerate(scheds)]
    f = run.run_harness(jobs, wd + "/h", nproc=1)[0]
    okc, dr, _ = run.conform("restart", f, wd + "/cf")
    expect(f"unchanged trace of {len(jobs)} runs is accepted by CF_restart", okc and not dr)
    lines = open(f).read().splitlines()
    def mutated(fn):
        for k, l in enumerate(lines):
            r = fn(k, l)
            if r is not None:
                x = list(lines)
                if r == "":
                    del x[k]
                else:
                    x[k] = r
                open(wd + "/c.ndjson", "w").write("\n".join(x) + "\n")
                return k + 1
        return None
    k = mutated(lambda k, l: l.replace('"code":"tramp"', '"code":"node"', 1) if '"code":"tramp"' in l else None)
    _, dr, _ = run.conform("restart", wd + "/c.ndjson", wd + "/cf")
    expect(f"answer code corrupted at line {k}: DRIFT reported there", any(d[0] == k for d in dr))
    k = mutated(lambda k, l: "" if '"ev":"deliver"' in l and '"o":"issue"' in l and k > 100 else None)
    _, dr, _ = run.conform("restart", wd + "/c.ndjson", wd + "/cf")
    expect(f"deliver line {k} (whose burst issued a call) dropped: DRIFT reported in that run", any(k <= d[0] <= k + 40 for d in dr))
    k = mutated(lambda k, l: l.replace('"gen":0,', '"gen":7,') if '"o":"issue"' in l and '"mode":"mr"' in l and '"gen":0,' in l else None)
    _, dr, _ = run.conform("restart", wd + "/c.ndjson", wd + "/cf")
    expect(f"issued generation corrupted at line {k}: DRIFT reported there", any(d[0] == k for d in dr))
    k = mutated(lambda k, l: l.replace('"st":"absent"', '"st":"free"') if '"ev":"exec"' in l and '"st":"absent"' in l else None)
    viol, _ = run.observe([wd + "/c.ndjson"], wd + "/o")
    expect(f"node-side result corrupted at line {k}: Observer reports TOOL", any("TOOL" in v[0] | v[1] for v in viol.values()))
    shutil.rmtree(wd, ignore_errors=True)
    print("selftest:", "all as expected" if ok else "SOMETHING IS OFF")
    return 0 if ok else 2

def check(pid, tier, seed):
    if pid == "C19":
        return check_c19(tier, seed)
    if pid == "C17":
        return check_c17(tier, seed)
    if pid == "C20":
        return check_c20(tier, seed)
    if pid == "C18":
        return check_c18(tier, seed)
    if pid == "C12":
        return check_c12(tier, seed)
    if pid in life.LIFE:
        return check_life(pid, tier, seed)
    print("no check registered for", pid)
    return 2

def replay(path):
    r = json.load(open(path))
    if r["kind"] == "life":
        run.cargo_build()
        wd = VERIF + "/work/replay"
        shutil.rmtree(wd, ignore_errors=True)
        files = run.run_harness([r["job"]], wd, nproc=1)
        viol, _ = run.observe(files, wd)
        for line in open(files[0]):
            print(line.rstrip())
        print("violated predicates:", {k: (sorted(v[0]), sorted(v[1]), sorted(v[2])) for k, v in viol.items()})
        pid = r["property"]
        hit = any(pid in v[0] or pid in v[1] for v in viol.values())
        shutil.rmtree(wd, ignore_errors=True)
        return 1 if hit else 0
    return 2
