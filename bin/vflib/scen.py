"""Scenario families and job generation for Engine A (lifecycle traces)."""
import json, random

CFG_A = {"base": 1, "ppm": 0, "pdelta": 40, "sdelta": 10, "mpp": 2, "h0": 100}
# 1% fee, base 0: amount 1000 needs 1010
CFG_B = {"base": 0, "ppm": 10000, "pdelta": 40, "sdelta": 10, "mpp": 3, "h0": 100}
CFG_C = {"base": 2, "ppm": 100000, "pdelta": 30, "sdelta": 5, "mpp": 1, "h0": 200}

def H(hash, inv, amt, total, exp, rel, **kw):
    d = {"hash": hash, "inv": inv, "amt": amt, "total": total, "exp": exp, "rel": rel}
    d.update(kw)
    return d

def invs_for(A):
    """invoice catalogue of the lifecycle families, for amount A"""
    return [
        {"hash": "h1", "amt": A},                 # 1
        {"hash": "h1", "amt": A, "variant": 1},   # 2: another invoice for the same hash
        {"hash": "h1", "amt": 0},                 # 3: amountless
        {"hash": "h2", "amt": A},                 # 4
        {"hash": "h1", "amt": A, "hint": True},   # 5: routed through ourselves
        {"hash": "h1", "amt": A, "variant": 2, "expiry": 1},   # 6: expires one second after the run starts
    ]
INVS = invs_for(10)

def need_of(cfg, A):
    return A + cfg["base"] + A * cfg["ppm"] // 10**6

def pool(cfg, A=10):
    """HTLC pool for this policy: a set has to bring N = A + fee."""
    h0 = cfg["h0"]; pd = cfg["pdelta"]
    N = need_of(cfg, A)
    p1 = N // 2 + 1; p2 = N - p1
    good = [
        H("h1", 1, p1, N, h0 + pd + 10, pd + 10),
        H("h1", 1, p2, N, h0 + pd + 20, pd + 20),
        H("h1", 1, N, N, h0 + pd + 30, pd + 30),
        H("h1", 1, p1 + 1, N + 1, h0 + pd + 5, pd + 5),
        H("h1", 1, N, N + 5, h0 + pd + 35, pd + 35),     # declares a larger total than it (or the set) ever brings
    ]
    # three parts of which no two fund the set: staggered arrivals of an incomplete set
    t1 = max(1, N // 3)
    if 2 * t1 < N and N - 2 * t1 >= 1:
        good += [H("h1", 1, t1, N, h0 + pd + 11, pd + 11), H("h1", 1, t1, N, h0 + pd + 12, pd + 12),
                 H("h1", 1, N - 2 * t1, N, h0 + pd + 13, pd + 13)]
    bad = [
        H("h1", 2, p2, N, h0 + pd + 30, pd + 30),        # conflicting invoice
        H("h1", 1, p2, N, h0 + pd - 10, pd - 10),        # relative expiry too low
        H("h1", 1, p2, N - 1, h0 + pd + 30, pd + 30),    # declared total too low
        H("h1", 3, p2, N, h0 + pd + 30, pd + 30, decl=A, decl_len=-2),  # amountless + declared (conflicts with inv 1)
        H("h1", 1, N, 0, h0 + pd + 30, pd + 30, fwd_amt=N - 1),     # no total_msat; the onion declares less than needed, the HTLC itself carries enough
        H("h1", 1, p2, 0, h0 + pd + 30, pd + 30, fwd_amt=max(1, p2 - 1)),   # ... as one part of a set
        H("h1", 1, p2, N, h0 - 1, -1),                   # already expired when it is delivered (replayed late)
        H("h1", 1, N, N, h0 - min(70000, h0), -min(70000, h0)),   # ... long ago (by more than 65535 blocks where the height allows)
    ]
    other = [
        H("h2", 1, N, N, h0 + pd + 30, pd + 30),       # foreign hash carrying an invoice for h1
        H("h1", 1, N, N, h0 + pd + 30, pd + 30, fwd=True),   # plain forward
        H("h1", 0, N, N, h0 + pd + 30, pd + 30),       # no invoice
        H("h1", 5, N, N, h0 + pd + 30, pd + 30),       # self route hint (allowed by default)
        H("h1", 1, N, N, h0 + pd + 30, pd + 30, decl=max(1, A // 2), decl_len=-2),   # fixed-amount invoice + lower amount field
        H("h1", 1, N, N, h0 + pd + 30, pd + 30, decl=A + 1, decl_len=-2),            # ... + higher amount field
    ]
    # the onion declares more for this part than the HTLC really carries
    inflated = [
        H("h1", 1, 1, N, h0 + pd + 15, pd + 15, fwd_amt=N),
        H("h1", 1, p2, N, h0 + pd + 25, pd + 25, fwd_amt=N),
        H("h1", 1, p1, N, h0 + pd + 10, pd + 10, fwd_amt=p1 + 3),
    ]
    h2 = [
        H("h2", 4, p1, N, h0 + pd + 12, pd + 12),
        H("h2", 4, p2, N, h0 + pd + 22, pd + 22),
        H("h2", 4, N, N, h0 + pd + 32, pd + 32),
    ]
    amtless = [
        H("h1", 3, p1, N, h0 + pd + 10, pd + 10, decl=A, decl_len=-2),
        H("h1", 3, p2, N, h0 + pd + 20, pd + 20, decl=A, decl_len=-2),
        H("h1", 3, p2, N, h0 + pd + 20, pd + 20, decl=A - 1, decl_len=-2),   # conflicting declared amount
    ]
    return {"good": good, "bad": bad, "other": other, "h2": h2, "amtless": amtless, "inflated": inflated}

PROBE = [H("h1", 1, 11, 11, 100 + 40 + 50, 90)]
POLICIES = [  # (cfg, amount): varied policies (C12: the failure carries exactly the configured policy)
    (CFG_A, 10), (CFG_A, 10), (CFG_B, 1000), (CFG_C, 100),
    ({"base": 1000, "ppm": 5000, "pdelta": 1008, "sdelta": 34, "mpp": 2, "h0": 800000}, 100000),
    ({"base": 65539, "ppm": 1000000, "pdelta": 144, "sdelta": 40, "mpp": 1, "h0": 500}, 7),
    # no fee at all / a proportional fee that rounds down to nothing: the budget handed to pay is exactly 0
    ({"base": 0, "ppm": 0, "pdelta": 40, "sdelta": 10, "mpp": 2, "h0": 100}, 10),
    ({"base": 0, "ppm": 5000, "pdelta": 40, "sdelta": 10, "mpp": 2, "h0": 100}, 150),
]

def rand_scenario(rng, family, policies=False):
    cfg, A = (rng.choice(POLICIES) if policies else (CFG_A, 10))
    cfg = dict(cfg)
    if rng.random() < 0.3:
        cfg["mpp"] = rng.choice([0, 1, 3])
    if rng.random() < 0.2:
        cfg["selfhints"] = False
    if rng.random() < 0.3:
        cfg["paytimeout"] = rng.choice([1, 2, 3])     # short payment timeout: a waitsendpay timeout, if requested, can fire
    if rng.random() < 0.3:
        cfg["xpay"] = True                            # the pay request is built by the other branch of pay()
    short_lived = rng.random() < 0.12                 # the set carries an invoice that expires during the run
    if rng.random() < 0.08:
        # the largest MPP timeout the option accepts ("never time out"): the trace carries 1_000_000
        cfg["mpp"] = 1000000
        # (4_294_968 s is just above 2^32 ms, 8_589_935 s just above 2^33 ms)
        cfg["mpp_real"] = rng.choice([2**63 - 1, 2**62, 10**12, 4294968, 4294968, 8589935])
    p = pool(cfg, A)
    hs = []
    if family == "base":
        hs = rng.sample(p["good"], rng.randint(1, 3))
        if rng.random() < 0.5:
            hs.append(rng.choice(p["bad"]))
        if rng.random() < 0.3:
            hs.append(rng.choice(p["other"]))
        if rng.random() < 0.25:
            hs.append(rng.choice(p["inflated"]))
    elif family == "replay":
        # expiries close to the policy delta, a chain that grows, relative expiries derived at delivery: a replayed
        # HTLC then has a lower relative expiry than at its first delivery
        pd = cfg["pdelta"]; h0 = cfg["h0"]
        N = need_of(cfg, A); p1 = N // 2 + 1
        hs = [H("h1", 1, p1, N, h0 + pd + rng.choice([0, 1, 2]), pd), H("h1", 1, N - p1, N, h0 + pd + rng.choice([1, 2, 5]), pd)]
        if rng.random() < 0.5:
            hs = [H("h1", 1, N, N, h0 + pd + rng.choice([0, 1, 3]), pd)]
        cfg["mpp"] = rng.choice([2, 4])
        return {"cfg": cfg, "invs": invs_for(A), "htlcs": hs, "derive_rel": True,
                "probe": [H("h1", 1, N, N, h0 + pd + 50, pd + 50)]}
    elif family == "amtless":
        hs = rng.sample(p["amtless"], rng.randint(1, 3))
        if rng.random() < 0.3:
            hs.append(rng.choice(p["good"]))
    elif family == "twohash":
        hs = rng.sample(p["good"][:3], rng.randint(1, 2)) + rng.sample(p["h2"], rng.randint(1, 2))
        if rng.random() < 0.35:
            # a rejecting HTLC of the first hash as well: a fail request may race with readiness while the other hash waits
            hs.insert(rng.randint(0, len(hs)), rng.choice(p["bad"][:3]))
    elif family == "overlap":
        # two successive fully funding sets
        hs = [p["good"][2], p["good"][0], p["good"][1]]
        if rng.random() < 0.4:
            hs.append(p["good"][3])
        if rng.random() < 0.7:
            # ordered: the first set is decided before the second one arrives
            first = rng.choice([[p["good"][2]], [p["good"][0], p["good"][1]]])
            second = rng.choice([[p["good"][2]], [p["good"][0], p["good"][1]], [p["good"][3], p["good"][1]]])
            N = need_of(cfg, A)
            return {"cfg": cfg, "invs": invs_for(A), "htlcs": first + second, "late_from": len(first) + 1,
                    "probe": [H("h1", 1, N, N, cfg["h0"] + cfg["pdelta"] + 50, cfg["pdelta"] + 50)]}
    elif family == "overlap3":
        # three successive fully funding single-HTLC sets, each delivered after the previous one was decided
        g = p["good"][2]
        hs = [g, dict(g, exp=g["exp"] + 1), dict(g, exp=g["exp"] + 2)]
        N = need_of(cfg, A)
        cfg["mpp"] = 6
        return {"cfg": cfg, "invs": invs_for(A), "htlcs": hs, "stage": True,
                "probe": [H("h1", 1, N, N, cfg["h0"] + cfg["pdelta"] + 50, cfg["pdelta"] + 50)]}
    elif family == "other":
        hs = rng.sample(p["other"], rng.randint(1, 3)) + rng.sample(p["good"], rng.randint(0, 2))
    rng.shuffle(hs)
    if short_lived:
        # every HTLC that carried invoice 1 carries invoice 6 instead (same hash, same amount, about to expire)
        hs = [dict(h, inv=6) if h.get("inv") == 1 else h for h in hs]
    N = need_of(cfg, A)
    return {"cfg": cfg, "invs": invs_for(A), "htlcs": hs,
            "probe": [H("h1", 6 if short_lived else 1, N, N, cfg["h0"] + cfg["pdelta"] + 50, cfg["pdelta"] + 50)]}

def rand_jobs(seed, n, families, crashes=(0, 1), wfaults=0, rfaults=0, probes=0, heights=False, freeze=False, start_run=1, steps=(25, 60), direct=0, policies=False, clockback=False):
    rng = random.Random(seed)
    jobs = []
    for k in range(n):
        fam = families[k % len(families)]
        scen = rand_scenario(rng, fam, policies)
        r = {"seed": rng.getrandbits(48), "steps": rng.randint(*steps),
             "crashes": rng.choice(crashes), "wfaults": rng.randint(0, wfaults), "rfaults": rng.randint(0, rfaults),
             "maxparts": rng.choice([1, 2, 2, 3]), "maxpays": 3, "maxclock": 8, "heights": heights}
        if fam == "overlap" and rng.random() < 0.7:
            r["slow_lc"] = rng.choice([1, 1, 2])
            r["steps"] = rng.randint(50, 90)
        if "late_from" in scen:
            r["late_from"] = scen.pop("late_from")
        derive = scen.pop("derive_rel", False)
        if scen.pop("stage", False):
            r["staged"] = True
            r["steps"] = rng.randint(70, 120)
            r["slow_lc"] = rng.choice([0, 1, 1, 2])
        if clockback and r["crashes"] and rng.random() < 0.5:
            r["clockback"] = True
        if freeze:
            r["freeze"] = "h1"
        if direct:
            r["direct"] = direct
            r["maxparts"] = rng.choice([0, 1, 2, 3])
            scen["htlcs"] = []
        job = {"run": start_run + k, "scen": scen, "rand": r, "probes": probes, "tag": fam}
        if (heights or derive or freeze) and not direct and rng.random() < 0.5:
            # the height the lifecycle sees comes from the real BlockWatcher (start + notifications + polls)
            job["realblocks"] = True
            r["crashes"] = max(r["crashes"], rng.choice([0, 1]))
        if derive:
            job["derive_rel"] = True
            r["heights"] = True
            r["crashes"] = 1
        jobs.append(job)
    return jobs


# ---------------------------------------------------------------------------------------------
# Classification space (C10, C13): every combination of invoice shape x amount field x flags.
CLASS_A = 10
CLASS_INVS = [
    {"hash": "h1", "amt": CLASS_A},                     # 1 fixed amount, hash equal
    {"hash": "h1", "amt": 0},                           # 2 amountless, hash equal
    {"hash": "h2", "amt": CLASS_A},                     # 3 fixed amount, other hash
    {"hash": "h2", "amt": 0},                           # 4 amountless, other hash
    {"hash": "h1", "amt": CLASS_A, "hint": True},       # 5 self route hint
    {"hash": "h1", "amt": 0, "hint": True},             # 6
    {"hash": "h1", "amt": CLASS_A, "form": "badsig"},   # 7 signature does not verify against the named payee
    {"hash": "h1", "amt": CLASS_A, "form": "garbage"},  # 8 not an invoice
    {"hash": "h1", "amt": CLASS_A, "form": "nonutf8"},  # 9
    {"hash": "h1", "amt": CLASS_A, "form": "truncated"},  # 10
    {"hash": "h2", "amt": CLASS_A, "hint": True},       # 11
    {"hash": "h1", "amt": CLASS_A, "payee": 2},         # 12 another payee
    {"hash": "h1", "amt": CLASS_A, "hops": "OL"},       # 13 two-hop hint, local node LAST (a self route hint)
    {"hash": "h1", "amt": CLASS_A, "hops": "LO"},       # 14 two-hop hint, local node first (not a self route hint)
    {"hash": "h1", "amt": 0, "hops": "OLO"},            # 15 local node in the middle
    {"hash": "h1", "amt": CLASS_A, "hops": "O"},        # 16 a hint that does not involve us
    {"hash": "h1", "amt": CLASS_A, "hops": "O,L"},      # 17 two hints, the SECOND one is a self route hint
    {"hash": "h1", "amt": 0, "hops": "OO,O,OL"},        # 18 three hints, local node last in the third
    {"hash": "h1", "amt": CLASS_A, "hops": "L,O"},      # 19 the first of two is a self route hint
    {"hash": "h1", "amt": CLASS_A, "hops": "LO,O"},     # 20 two hints, local node only first in one of them (no self hint)
    {"hash": "h1", "amt": CLASS_A, "form": "mixedcase"},  # 21 one upper-case character: not a valid bech32 string
    {"hash": "h1", "amt": 0, "form": "mixedcase"},      # 22
    {"hash": "h1", "amt": CLASS_A, "form": "noncanon"}, # 23 valid, but not the canonical text of its fields
    {"hash": "h1", "amt": 0, "form": "noncanon"},       # 24
    {"hash": "h1", "amt": CLASS_A, "form": "nfield"},   # 25 payee named by an n field, signature with the other recovery id
]

def class_cases():
    """the abstract request space, one HTLC per case"""
    cfgbase = dict(CFG_A)
    h0, pd = cfgbase["h0"], cfgbase["pdelta"]
    decls = [(-1, 0)]
    for k in range(0, 10):
        for val in (CLASS_A, CLASS_A + 1, 0):
            enc = val % (256 ** k) if k <= 8 else val
            decls.append((k, enc))
    decls = sorted(set(decls))
    for selfhints in (True, False):
        for inv in range(0, len(CLASS_INVS) + 1):
            for (dl, dv) in decls:
                for fwdmsat in (True, False):
                    for fwd in (False, True):
                        if fwd and (dl not in (-1, 8) or not fwdmsat):
                            continue   # a plain forward: the other dimensions are irrelevant, sample them
                        yield selfhints, H("h1", inv, 100, 100, h0 + pd + 50, pd + 50, decl=dv, decl_len=dl, fwd=fwd, fwdmsat=fwdmsat)

RAW_META = [
    "", "00", "fd", "fd01", "fe000080", "ff", "0100", "0101aa", "01", "fe000080e9", "fe000080e900",
    "fe000080e903616263", "fe000080eb0105",
    # a length prefix in front of an inner stream that names the invoice / amount record:
    # the un-prefixed reader sees garbage, the prefixed one (default_response) sees the record
    "09fe000080e903616263", "07fe000080eb0105", "020100", "0afe000080e903616263aa",
]

def class_jobs(seed, tier, start_run=1):
    rng = random.Random(seed)
    jobs = []
    runno = start_run
    cases = list(class_cases())
    if tier != "thorough":
        # every invoice x amount-field x selfhints combination; the two flags sampled
        keep = []
        for c in cases:
            sh, h = c
            if h["fwd"] or not h["fwdmsat"]:
                if rng.random() < 0.25:
                    keep.append(c)
            else:
                keep.append(c)
        cases = keep
    # (other records around the metadata; the last record of a payload may have an empty value)
    # record order inside the metadata / a last record whose length field overstates what follows
    shaped = []
    for sh, h in cases:
        if not h["fwd"] and h["fwdmsat"] and h["inv"] in (1, 2, 5, 13, 17) and rng.random() < (1.0 if tier == "thorough" else 0.5):
            for meta in ("swapped", "overlen"):
                shaped.append((sh, dict(h, meta=meta)))
    cases = cases + shaped
    extras = [[], [(10, "aabb")], [(18, ""), (65537, "01")], [(1, "00"), (12, "ff" * 3), (4294967297, "05")],
              [(18, "")], [(10, "aabb"), (65, "")], [(7, ""), (4294967297, "")],
              [(1000 + k, "%02x" % k) for k in range(40)]]      # many records
    for sh, h in cases:
        cfg = dict(CFG_A); cfg["selfhints"] = sh
        if rng.random() < 0.3:
            cfg["xpay"] = True
        h = dict(h); h["extra"] = rng.choice(extras)
        sc = {"cfg": cfg, "invs": CLASS_INVS, "htlcs": [h], "probe": []}
        jobs.append({"run": runno, "scen": sc, "sched": [{"a": "htlc", "i": 1}], "drain": True, "tag": "class", "payload": True,
                     "rand": {"seed": rng.getrandbits(40), "steps": 0}})
        runno += 1
    # an invoice that states the amount 0, with an amount field that names another amount
    zi = len(CLASS_INVS) + 1
    for dv, dl in ((CLASS_A, -2), (1, 8), (CLASS_A, 3)):
        cfg = dict(CFG_A)
        h = H("h1", zi, 100, 100, cfg["h0"] + cfg["pdelta"] + 50, cfg["pdelta"] + 50, decl=dv, decl_len=dl)
        sc = {"cfg": cfg, "invs": CLASS_INVS + [{"hash": "h1", "amt": 0, "zero": True}], "htlcs": [h], "probe": []}
        jobs.append({"run": runno, "scen": sc, "sched": [{"a": "htlc", "i": 1}], "drain": True, "tag": "class-zero", "payload": True,
                     "rand": {"seed": rng.getrandbits(40), "steps": 0}})
        runno += 1
    # payment hashes that differ only a little from the hash the attached invoice is for
    for v in range(1, 12):
        for inv in (1, 2):
            cfg = dict(CFG_A)
            h = H("near:h1:%d" % v, inv, 100, 100, cfg["h0"] + cfg["pdelta"] + 50, cfg["pdelta"] + 50,
                  **({"decl": CLASS_A, "decl_len": -2} if inv == 2 else {}))
            sc = {"cfg": cfg, "invs": CLASS_INVS, "htlcs": [h], "probe": []}
            jobs.append({"run": runno, "scen": sc, "sched": [{"a": "htlc", "i": 1}], "drain": True, "tag": "class-near", "payload": True,
                         "rand": {"seed": rng.getrandbits(40), "steps": 0}})
            runno += 1
    # metadata that is not a well-formed trampoline request, with other records around it
    for raw in RAW_META:
        for ex in extras:
            for fwd in (False, True):
                cfg = dict(CFG_A)
                h = H("h1", 0, 100, 100, cfg["h0"] + cfg["pdelta"] + 50, cfg["pdelta"] + 50, meta="raw:" + raw, fwd=fwd)
                h["extra"] = ex
                sc = {"cfg": cfg, "invs": CLASS_INVS, "htlcs": [h], "probe": []}
                jobs.append({"run": runno, "scen": sc, "sched": [{"a": "htlc", "i": 1}], "drain": True, "tag": "class-raw", "payload": True,
                             "rand": {"seed": rng.getrandbits(40), "steps": 0}})
                runno += 1
    # invoices with a route hint that has no hops at all (the builder and the parser of such invoices accept them)
    n0 = len(CLASS_INVS)
    hinv = [{"hash": "h1", "amt": CLASS_A, "hops": ","}, {"hash": "h1", "amt": CLASS_A, "hops": "O,"},
            {"hash": "h1", "amt": CLASS_A, "hops": ",L"}, {"hash": "h1", "amt": 0, "hops": ","}]
    for k, spec in enumerate(hinv, 1):
        for sh in (True, False):
            cfg = dict(CFG_A); cfg["selfhints"] = sh
            h = H("h1", n0 + k, 100, 100, cfg["h0"] + cfg["pdelta"] + 50, cfg["pdelta"] + 50,
                  **({"decl": CLASS_A, "decl_len": -2} if spec["amt"] == 0 else {}))
            sc = {"cfg": cfg, "invs": CLASS_INVS + hinv, "htlcs": [h], "probe": []}
            jobs.append({"run": runno, "scen": sc, "sched": [{"a": "htlc", "i": 1}], "drain": True, "tag": "class-hint", "payload": True,
                         "rand": {"seed": rng.getrandbits(40), "steps": 0}})
            runno += 1
    return jobs

def garbage_jobs(seed, n, start_run=1):
    """C06: arbitrary metadata bytes and extreme numeric fields; every call must be answered once, no panic"""
    rng = random.Random(seed ^ 0x6a)
    U64 = 2**64 - 1
    jobs = []
    big = [0, 1, 2**31, 2**32, 2**63 - 1, 2**63, U64 - 1, U64]
    # the HTLC's own amount is what the node really received: E8 keeps the sum per hash below 2^64
    amts = [0, 1, 100, 2**31, 2**40, 2**60]
    for k in range(n):
        cfg = dict(rng.choice([CFG_A, CFG_B, CFG_C]))
        hs = []
        for _ in range(rng.randint(1, 3)):
            c = rng.random()
            if c < 0.4:
                L = rng.choice([0, 1, 2, 3, 5, 9, 17, 40])
                raw = bytes(rng.choice([0, 1, 0xfd, 0xfe, 0xff, 0x80, 0xe9, rng.randrange(256)]) for _ in range(L)).hex()
                h = H("h1", 0, rng.choice(amts), rng.choice(big), rng.choice([0, 1, 2**32 - 1, 500]), rng.choice([-2**63, -1, 0, 2**63 - 1, 100]), meta="raw:" + raw)
            elif c < 0.8:
                # a well-formed trampoline request with extreme numbers (amount field, totals, expiries)
                inv = rng.choice([1, 2])
                h = H("h1", inv, rng.choice(amts), rng.choice(big + [100]), rng.choice([0, 2**32 - 1, 200]),
                      rng.choice([-2**63, -1, 0, 39, 40, 2**63 - 1]), decl=rng.choice(big), decl_len=rng.choice([-1, -2, 0, 8, 9]))
            else:
                h = H("h1", rng.choice([1, 7, 8, 9, 10]), 100, 100, 200, 100, fwdmsat=rng.random() < 0.7)
            hs.append(h)
        sc = {"cfg": cfg, "invs": CLASS_INVS, "htlcs": hs, "probe": []}
        jobs.append({"run": start_run + k, "scen": sc, "rand": {"seed": rng.getrandbits(40), "steps": rng.randint(5, 30), "maxclock": 6},
                     "drain": True, "tag": "garbage"})
    return jobs


# ---------------------------------------------------------------------------------------------
# Directed schedules: C11's restart clause.  Stored attempt younger / older than the timeout / dated in the
# future (wall clock stepped back while down), every down-time, one or both HTLCs replayed.
def restart_wait_jobs(start_run=1):
    jobs = []
    run = start_run
    ds = lambda key, mode: {"kind": "ds", "hash": "h1", "key": key}
    for mpp in (1, 2, 3):
        cfg = dict(CFG_A); cfg["mpp"] = mpp
        p = pool(cfg, 10)
        sc = {"cfg": cfg, "invs": invs_for(10), "htlcs": [p["good"][0], p["good"][1]], "probe": []}
        for pre in (0, 2):                       # ticks before the attempt
            for stage in ("w1", "w2", "pay"):    # how far add_payment_attempt / pay got before the crash
                for back in (0, 1, 2, 3):        # wall clock stepped back at the crash
                    for down in (0, 1, 2, 4):    # down-time in ticks
                        for replay in ((1,), (2,), (1, 2)):
                            if back and down > 1:
                                continue
                            s = [{"a": "tick"}] * pre + [{"a": "htlc", "i": 1}, {"a": "htlc", "i": 2},
                                 {"a": "exec", "sel": {"kind": "listds", "hash": "h1"}, "fault": "none"},
                                 {"a": "deliver", "sel": {"kind": "listds", "hash": "h1"}},
                                 {"a": "exec", "sel": ds("state", "cor"), "fault": "none"}]
                            if stage in ("w2", "pay"):
                                s += [{"a": "deliver", "sel": ds("state", "cor")}, {"a": "exec", "sel": ds("att", "mc"), "fault": "none"}]
                            if stage == "pay":
                                s += [{"a": "deliver", "sel": ds("att", "mc")}, {"a": "exec", "sel": {"kind": "pay", "hash": "h1"}, "fault": "none"}]
                            s += [{"a": "crash", "lose": False, "back": back}] + [{"a": "tick"}] * down
                            s += [{"a": "htlc", "i": i} for i in replay]
                            s += [{"a": "exec", "sel": {"kind": "listds", "hash": "h1"}, "fault": "none"}, {"a": "deliver", "sel": {"kind": "listds", "hash": "h1"}},
                                  {"a": "exec", "sel": {"kind": "lists", "hash": "h1", "status": "pending"}, "fault": "none"},
                                  {"a": "deliver", "sel": {"kind": "lists", "hash": "h1", "status": "pending"}},
                                  {"a": "exec", "sel": {"kind": "lists", "hash": "h1", "status": "complete"}, "fault": "none"},
                                  {"a": "deliver", "sel": {"kind": "lists", "hash": "h1", "status": "complete"}},
                                  {"a": "exec", "sel": ds("att", "cor"), "fault": "none"}, {"a": "deliver", "sel": ds("att", "cor")},
                                  {"a": "exec", "sel": ds("state", "mr"), "fault": "none"}, {"a": "deliver", "sel": ds("state", "mr")}]
                            s += [{"a": "tick"}] * (mpp + 5)
                            jobs.append({"run": run, "scen": sc, "sched": s, "drain": True, "tag": "directed:restart_wait"})
                            run += 1
    return jobs


# Directed schedules: pay ends without a final answer while a part is still pending, then more time passes than the
# payment timeout before the node is asked to serve the plugin's waitsendpay (which it can only do if the plugin
# asked for a timeout), and only then the part resolves.
def wait_timeout_jobs(start_run=1):
    jobs = []
    run = start_run
    ds = lambda key: {"kind": "ds", "hash": "h1", "key": key}
    for paytimeout in (1, 2):
        for outcome in ("pending", "error", "failed_warn", "transport", "nocode", "pending_nopre", "error_neg"):
            for nparts in (1, 2):
                for final in ("complete", "failed"):
                    cfg = dict(CFG_A); cfg["mpp"] = 3; cfg["paytimeout"] = paytimeout
                    p = pool(cfg, 10)
                    sc = {"cfg": cfg, "invs": invs_for(10), "htlcs": [p["good"][2]], "probe": [p["good"][2]]}
                    s = [{"a": "htlc", "i": 1},
                         {"a": "exec", "sel": {"kind": "listds", "hash": "h1"}, "fault": "none"}, {"a": "deliver", "sel": {"kind": "listds", "hash": "h1"}},
                         {"a": "exec", "sel": ds("state"), "fault": "none"}, {"a": "deliver", "sel": ds("state")},
                         {"a": "exec", "sel": ds("att"), "fault": "none"}, {"a": "deliver", "sel": ds("att")},
                         {"a": "exec", "sel": {"kind": "pay", "hash": "h1"}, "fault": "none"}]
                    s += [{"a": "paypart", "sel": {"kind": "pay", "hash": "h1"}}] * nparts
                    s += [{"a": "payreturn", "sel": {"kind": "pay", "hash": "h1"}, "outcome": outcome}, {"a": "deliver", "sel": {"kind": "pay", "hash": "h1"}},
                          {"a": "exec", "sel": {"kind": "lists", "hash": "h1", "status": "pending"}, "fault": "none"},
                          {"a": "deliver", "sel": {"kind": "lists", "hash": "h1", "status": "pending"}},
                          {"a": "exec", "sel": {"kind": "lists", "hash": "h1", "status": "complete"}, "fault": "none"},
                          {"a": "deliver", "sel": {"kind": "lists", "hash": "h1", "status": "complete"}}]
                    s += [{"a": "tick"}] * (paytimeout + 1)
                    for part in range(1, nparts + 1):
                        s += [{"a": "exec", "sel": {"kind": "wait", "hash": "h1", "part": part}, "fault": "none"},
                              {"a": "deliver", "sel": {"kind": "wait", "hash": "h1", "part": part}}]
                    s += [{"a": "tick"}]
                    s += [{"a": "partdone", "p": part, "how": final, "code": 203} for part in range(1, nparts + 1)]
                    jobs.append({"run": run, "scen": sc, "sched": s, "drain": True, "tag": "directed:wait_timeout"})
                    run += 1
    return jobs


# ---------------------------------------------------------------------------------------------
# Directed schedules: the periodic height poll of the real BlockWatcher is in flight (getinfo not yet answered) while a
# set of hash h1 becomes ready and an incomplete set of hash h2 waits for its MPP timeout.  The timeout of h2 must not
# depend on the node answering getinfo (C11 across block_watcher.rs and the lifecycle; also C14).
def poll_window_jobs(start_run=1):
    jobs = []
    cfg = dict(CFG_A)
    h0, pd = cfg["h0"], cfg["pdelta"]
    N = need_of(cfg, 10)
    full = H("h1", 1, N, N, h0 + pd + 30, pd + 30)
    part = H("h2", 4, N // 2 + 1, N, h0 + pd + 12, pd + 12)
    ex = lambda kind, hash, **kw: {"a": "exec", "sel": dict({"kind": kind, "hash": hash}, **kw), "who": "own", "fault": "none"}
    de = lambda kind, hash, **kw: {"a": "deliver", "sel": dict({"kind": kind, "hash": hash}, **kw), "who": "own"}
    run = start_run
    for pre_ticks in (60, 59, 61):
        for answered in (False, True):
            for order in ("full-first", "part-first"):
                sched = [{"a": "tick"}] * pre_ticks
                if answered:
                    sched += [ex("getinfo", ""), de("getinfo", "")]
                a = [{"a": "htlc", "i": 1}, ex("listds", "h1", key="state"), de("listds", "h1", key="state")]
                b = [{"a": "htlc", "i": 2}, ex("listds", "h2", key="state"), de("listds", "h2", key="state")]
                sched += (a + b) if order == "full-first" else (b + a)
                sched += [{"a": "tick"}] * (cfg["mpp"] + 2)
                jobs.append({"run": run, "scen": {"cfg": cfg, "invs": INVS, "htlcs": [full, part], "probe": []},
                             "sched": sched, "drain": True, "realblocks": True, "tag": "pollwindow"})
                run += 1
    return jobs


# ---------------------------------------------------------------------------------------------
# Directed schedules: a payment that stays undecided for a long time (many MPP timeouts) while its parts, which arrived
# at different moments, are held: the pay command is slow, or the restart path waits for a part of the interrupted
# attempt.  However long it takes, the parts get the same resolution together (C07, C02, C06).
def slow_decision_jobs(start_run=1):
    jobs = []
    run = start_run
    ds = lambda key: {"kind": "ds", "hash": "h1", "key": key}
    X = lambda sel, fault="none": {"a": "exec", "sel": sel, "fault": fault}
    D = lambda sel: {"a": "deliver", "sel": sel}
    for mpp in (1, 2):
        for long in (12 * mpp + 3, 25 * mpp):
            for outcome in ("complete", "failed"):
                cfg = dict(CFG_A); cfg["mpp"] = mpp
                p = pool(cfg, 10)
                g1, g2 = p["good"][0], p["good"][1]
                sc = {"cfg": cfg, "invs": invs_for(10), "htlcs": [g1, g2], "probe": []}
                lds = {"kind": "listds", "hash": "h1"}
                # (a) live path: part 1, a little later part 2, pay issued, pay takes `long` seconds
                s = [{"a": "htlc", "i": 1}, X(lds), D(lds), {"a": "tick"} if mpp > 1 else {"a": "htlc", "i": 2}, {"a": "htlc", "i": 2},
                     X(ds("state")), D(ds("state")), X(ds("att")), D(ds("att")), X({"kind": "pay", "hash": "h1"}),
                     {"a": "paypart", "sel": {"kind": "pay", "hash": "h1"}}]
                s += [{"a": "tick"}] * long
                s += [{"a": "partdone", "p": 1, "how": outcome, "code": 203},
                      {"a": "payreturn", "sel": {"kind": "pay", "hash": "h1"}, "outcome": outcome}, D({"kind": "pay", "hash": "h1"})]
                jobs.append({"run": run, "scen": sc, "sched": s, "drain": True, "tag": "directed:slow_pay"})
                run += 1
                # (b) restart path: crash while the part is in flight, both parts replayed at different moments, the part
                #     resolves `long` seconds later
                s = [{"a": "htlc", "i": 1}, X(lds), D(lds), {"a": "htlc", "i": 2},
                     X(ds("state")), D(ds("state")), X(ds("att")), D(ds("att")), X({"kind": "pay", "hash": "h1"}),
                     {"a": "paypart", "sel": {"kind": "pay", "hash": "h1"}}, {"a": "crash", "lose": False},
                     {"a": "htlc", "i": 1}, X(lds), D(lds),
                     X({"kind": "lists", "hash": "h1", "status": "pending"}), D({"kind": "lists", "hash": "h1", "status": "pending"}),
                     X({"kind": "lists", "hash": "h1", "status": "complete"}), D({"kind": "lists", "hash": "h1", "status": "complete"})]
                s += [{"a": "tick"}] * (long // 2)
                s += [{"a": "htlc", "i": 2}]
                s += [{"a": "tick"}] * (long - long // 2)
                s += [{"a": "partdone", "p": 1, "how": outcome, "code": 203},
                      X({"kind": "wait", "hash": "h1", "part": 1}), D({"kind": "wait", "hash": "h1", "part": 1})]
                jobs.append({"run": run, "scen": sc, "sched": s, "drain": True, "tag": "directed:slow_restart"})
                run += 1
    return jobs


# ---------------------------------------------------------------------------------------------
# Directed schedules: every datastore write of a payment fails once (rejected / applied but reported failed), the run is
# then pushed forward whatever the code does next (calls it should not have issued are served too, parts are created if
# a pay is running), the node crashes with whatever is in flight, all or only some HTLCs are replayed and the clock runs
# past the MPP timeout.  (C02, C05, C08, C09: "every single write fault ... and every resulting stored history".)
def write_fault_jobs(start_run=1, probes=0):
    jobs = []
    run = start_run
    ds = lambda key: {"kind": "ds", "hash": "h1", "key": key}
    X = lambda sel, fault="none": {"a": "exec", "sel": sel, "fault": fault}
    D = lambda sel: {"a": "deliver", "sel": sel}
    lds = {"kind": "listds", "hash": "h1"}
    payc = {"kind": "pay", "hash": "h1"}
    cfg = dict(CFG_A)
    p = pool(cfg, 10)
    g1, g2 = p["good"][0], p["good"][1]
    sc = {"cfg": cfg, "invs": invs_for(10), "htlcs": [g1, g2], "probe": [p["good"][2]]}
    # the writes of one attempt, in order, by key; outcome of the pay decides the last two
    for outcome in ("failed", "complete"):
        writes = ["state", "att", "att", "state"] if outcome == "failed" else ["state", "att", "state", "att"]
        for k in range(4):
            for fault in ("reject", "lost"):
                for replay in ([1], [1, 2], []):
                    s = [{"a": "htlc", "i": 1}, X(lds), D(lds), {"a": "htlc", "i": 2}]
                    for w in range(4):
                        if w == 2:
                            # between the second and the third write: the pay command
                            s += [X(payc), {"a": "paypart", "sel": payc}]
                            if k >= 2:
                                s += [{"a": "partdone", "p": 1, "how": outcome, "code": 203},
                                      {"a": "payreturn", "sel": payc, "outcome": outcome}, D(payc)]
                        s += [X(ds(writes[w]), fault if w == k else "none"), D(ds(writes[w]))]
                        if w == k:
                            break
                    # whatever the code does after the fault: serve it (steps that do not apply are skipped)
                    s += [X(ds("att")), D(ds("att")), X(ds("state")), D(ds("state")), X(payc), {"a": "paypart", "sel": payc}]
                    if replay:
                        s += [{"a": "crash", "lose": False}]
                        for i in replay:
                            s += [{"a": "htlc", "i": i}]
                        s += [X(lds), D(lds),
                              X({"kind": "lists", "hash": "h1", "status": "pending"}), D({"kind": "lists", "hash": "h1", "status": "pending"}),
                              X({"kind": "lists", "hash": "h1", "status": "complete"}), D({"kind": "lists", "hash": "h1", "status": "complete"})]
                    s += [{"a": "tick"}] * (cfg["mpp"] + 1)
                    jobs.append({"run": run, "scen": sc, "sched": s, "drain": True, "probes": probes, "tag": "directed:write_fault"})
                    run += 1
    return jobs


# ---------------------------------------------------------------------------------------------
# Directed schedules for the provider (C15, C16): a pay command that leaves many parts behind (more than any window or
# batch a waiting loop might use); all but one fail with part-level codes, one completes - first, in the middle, or last.
def many_parts_jobs(start_run=1):
    jobs = []
    run = start_run
    cfg = dict(CFG_A)
    payc = {"kind": "pay", "hash": "h1"}
    X = lambda sel, fault="none": {"a": "exec", "sel": sel, "fault": fault}
    D = lambda sel: {"a": "deliver", "sel": sel}
    for n in (9, 12, 17):
        for winner in (1, n // 2, n, 0):
            for outcome in ("pending", "error", "failed_warn", "error_neg"):
                for xpay in (False, True):
                    sc = {"cfg": dict(cfg, xpay=xpay), "invs": invs_for(10), "htlcs": [], "probe": []}
                    s = [{"a": "paycall", "hash": "h1", "inv": 1}, X(payc)]
                    s += [{"a": "paypart", "sel": payc}] * n
                    s += [{"a": "payreturn", "sel": payc, "outcome": outcome}, D(payc),
                          X({"kind": "lists", "hash": "h1", "status": "pending"}), D({"kind": "lists", "hash": "h1", "status": "pending"}),
                          X({"kind": "lists", "hash": "h1", "status": "complete"}), D({"kind": "lists", "hash": "h1", "status": "complete"})]
                    order = [p for p in range(1, n + 1) if p != winner] + ([winner] if winner else [])
                    codes = [202, 203, 204, 208, 209]
                    for k, p in enumerate(order):
                        how = "complete" if p == winner else "failed"
                        s += [{"a": "partdone", "p": p, "how": how, "code": codes[k % 5]},
                              X({"kind": "wait", "hash": "h1", "part": p}), D({"kind": "wait", "hash": "h1", "part": p})]
                    jobs.append({"run": run, "scen": sc, "sched": s, "drain": True, "tag": "directed:many_parts",
                                 "rand": {"seed": run, "steps": 0, "direct": 1, "maxparts": n}})
                    run += 1
    return jobs


# ---------------------------------------------------------------------------------------------
# Directed schedules (C01): h6 is a hash whose bytes differ from h1's but read the same when printed without zero
# padding.  h1 is paid and settled; then an HTLC for h6 with a valid invoice for h6 arrives (also after a restart).
# Whatever is stored for h1 must not settle it.
def twin_key_jobs(start_run=1):
    jobs = []
    for tw in ("h6", "h5"):      # h6: same text without zero padding; h5: differs from h1 in its last bit only
        js = _twin_key_jobs(start_run + len(jobs), tw)
        jobs += js
    return jobs

def _twin_key_jobs(start_run, twin):
    jobs = []
    run = start_run
    cfg = dict(CFG_A)
    N = need_of(cfg, 10)
    h0, pd = cfg["h0"], cfg["pdelta"]
    invs = [{"hash": "h1", "amt": 10}, {"hash": twin, "amt": 10}]
    hs = [H("h1", 1, N, N, h0 + pd + 30, pd + 30), H(twin, 2, N, N, h0 + pd + 31, pd + 31)]
    ds = lambda h, key: {"kind": "ds", "hash": h, "key": key}
    X = lambda sel, fault="none": {"a": "exec", "sel": sel, "fault": fault}
    D = lambda sel: {"a": "deliver", "sel": sel}
    for crash in (False, True):
        payc = {"kind": "pay", "hash": "h1"}
        # calls are named by kind only: under a key layout that does not name the hash the specified way the harness
        # cannot tell whose record a datastore call touches
        anyl = [dict(X({"kind": "listds"}), who="own"), dict(D({"kind": "listds"}), who="own")]
        anyd = [dict(X({"kind": "ds"}), who="own"), dict(D({"kind": "ds"}), who="own")]
        s = [{"a": "htlc", "i": 1}] + anyl + anyd + anyd + [X(payc), {"a": "paypart", "sel": payc},
             {"a": "partdone", "p": 1, "how": "complete", "code": 0}, {"a": "payreturn", "sel": payc, "outcome": "complete"}, D(payc)]
        s += anyd * 3
        if crash:
            s += [{"a": "crash", "lose": False}]
        s += [{"a": "htlc", "i": 2}] + anyl
        jobs.append({"run": run, "scen": {"cfg": cfg, "invs": invs, "htlcs": hs, "probe": []}, "sched": s, "drain": True, "tag": "directed:twin_key"})
        run += 1
    return jobs


# ---------------------------------------------------------------------------------------------
# Directed schedules: the node was down for many blocks while a part of the interrupted attempt was in flight; when the
# HTLC is replayed it has only a few blocks left (more than / exactly / fewer than the safety delta, or none).  The fate
# of the attempt is still unknown: the HTLC stays held and is settled when the part completes (C02, C05, C08).
def late_replay_jobs(start_run=1):
    jobs = []
    run = start_run
    cfg = dict(CFG_A)
    p = pool(cfg, 10)
    g = p["good"][2]
    ds = lambda key: {"kind": "ds", "hash": "h1", "key": key}
    X = lambda sel, fault="none": {"a": "exec", "sel": sel, "fault": fault}
    D = lambda sel: {"a": "deliver", "sel": sel}
    lds = {"kind": "listds", "hash": "h1"}; payc = {"kind": "pay", "hash": "h1"}
    for left in (cfg["sdelta"] + 1, cfg["sdelta"], cfg["sdelta"] - 1, 1, 0, -3):
        for outcome in ("complete", "failed"):
            for realblocks, age in ((False, 0), (True, 0), (False, cfg["mpp"] + 1), (True, cfg["mpp"] + 1)):
                s = [{"a": "htlc", "i": 1}, X(lds), D(lds), X(ds("state")), D(ds("state")), X(ds("att")), D(ds("att")),
                     X(payc), {"a": "paypart", "sel": payc}] + [{"a": "tick"}] * age + [{"a": "crash", "lose": False},
                     {"a": "height", "h": g["exp"] - left},
                     {"a": "htlc", "i": 1}, X(lds), D(lds),
                     X({"kind": "lists", "hash": "h1", "status": "pending"}), D({"kind": "lists", "hash": "h1", "status": "pending"}),
                     X({"kind": "lists", "hash": "h1", "status": "complete"}), D({"kind": "lists", "hash": "h1", "status": "complete"}),
                     {"a": "tick"}, {"a": "partdone", "p": 1, "how": outcome, "code": 203},
                     X({"kind": "wait", "hash": "h1", "part": 1}), D({"kind": "wait", "hash": "h1", "part": 1})]
                j = {"run": run, "scen": {"cfg": cfg, "invs": invs_for(10), "htlcs": [g], "probe": []}, "sched": s, "drain": True,
                     "tag": "directed:late_replay"}
                if realblocks:
                    j["realblocks"] = True
                jobs.append(j)
                run += 1
    return jobs


# ---------------------------------------------------------------------------------------------
# Directed schedules (thorough tier of C02, which admits failed reads): after a restart the wait for the interrupted
# attempt fails (known finding K1: the lifecycle task dies, the HTLC stays held); then a further HTLC of the same hash
# arrives that trips a fail request.  The fate of the attempt is still unknown: nothing may be failed back.
def k1_then_fail_jobs(start_run=1):
    jobs = []
    run = start_run
    cfg = dict(CFG_A)
    p = pool(cfg, 10)
    g1, g2 = p["good"][0], p["good"][1]
    ds = lambda key: {"kind": "ds", "hash": "h1", "key": key}
    X = lambda sel, fault="none": {"a": "exec", "sel": sel, "fault": fault}
    D = lambda sel: {"a": "deliver", "sel": sel}
    lds = {"kind": "listds", "hash": "h1"}; payc = {"kind": "pay", "hash": "h1"}
    for bad in p["bad"][:3]:
        for where in ("pending", "complete"):
            s = [{"a": "htlc", "i": 1}, X(lds), D(lds), {"a": "htlc", "i": 2}, X(ds("state")), D(ds("state")), X(ds("att")), D(ds("att")),
                 X(payc), {"a": "paypart", "sel": payc}, {"a": "crash", "lose": False},
                 {"a": "htlc", "i": 1}, X(lds), D(lds)]
            lp = {"kind": "lists", "hash": "h1", "status": "pending"}; lc = {"kind": "lists", "hash": "h1", "status": "complete"}
            if where == "pending":
                s += [X(lp, "error"), D(lp)]
            else:
                s += [X(lp), D(lp), X(lc, "error"), D(lc)]
            s += [{"a": "htlc", "i": 3}, {"a": "tick"}, {"a": "htlc", "i": 2}, {"a": "tick"}]
            jobs.append({"run": run, "scen": {"cfg": cfg, "invs": invs_for(10), "htlcs": [g1, g2, bad], "probe": []}, "sched": s,
                         "drain": True, "tag": "directed:k1_then_fail"})
            run += 1
    return jobs


# ---------------------------------------------------------------------------------------------
# Directed schedules: while the pay command is outstanding (no part yet, one part or two parts in flight) a further HTLC
# of the same hash arrives that trips a fail request (conflicting invoice, relative expiry too low, declared total too
# low, conflicting declared amount).  Time passes, then the parts and the pay command end one way or the other.  Until
# then the fate of the attempt is open: the record stays in-flight (C08), nothing is failed back (C02), and all HTLCs of
# the set, the late one included, get the same resolution (C07).
def late_bad_jobs(start_run=1):
    jobs = []
    run = start_run
    ds = lambda key: {"kind": "ds", "hash": "h1", "key": key}
    X = lambda sel, fault="none": {"a": "exec", "sel": sel, "fault": fault}
    D = lambda sel: {"a": "deliver", "sel": sel}
    lds = {"kind": "listds", "hash": "h1"}; payc = {"kind": "pay", "hash": "h1"}
    cfg = dict(CFG_A)
    p = pool(cfg, 10)
    g = p["good"][2]
    for bad in p["bad"][:4]:
        for nparts in (0, 1, 2):
            for outcome in ("complete", "failed"):
                for wait in (1, cfg["mpp"] + 2):
                    s = [{"a": "htlc", "i": 1}, X(lds), D(lds), X(ds("state")), D(ds("state")), X(ds("att")), D(ds("att")), X(payc)]
                    s += [{"a": "paypart", "sel": payc}] * nparts
                    s += [{"a": "htlc", "i": 2}] + [{"a": "tick"}] * wait
                    if nparts == 0:
                        s += [{"a": "paypart", "sel": payc}]
                    s += [{"a": "tick"}]
                    s += [{"a": "partdone", "p": k, "how": outcome, "code": 203} for k in range(1, max(1, nparts) + 1)]
                    s += [{"a": "payreturn", "sel": payc, "outcome": outcome}, D(payc)]
                    jobs.append({"run": run, "scen": {"cfg": cfg, "invs": invs_for(10), "htlcs": [g, bad], "probe": []}, "sched": s,
                                 "drain": True, "tag": "directed:late_bad"})
                    run += 1
    return jobs


# ---------------------------------------------------------------------------------------------
# Directed schedules: the old lifecycle's bookkeeping is slow.  Attempt 1 fails, its HTLC is failed back, and one of the
# two writes of its "mark failed" bookkeeping is still on its way when the sender retries: the new lifecycle reads the
# in-flight record, finds nothing in flight, frees the record, records attempt 2 and pays; a part of attempt 2 is
# pending (or already complete, the command still running).  Only now the old lifecycle's write reaches the datastore
# (it is refused: the generation moved on); whatever the old lifecycle does next is served.  Then either the node
# crashes and the HTLC is replayed, or attempt 2 ends.  The record of attempt 2 stays in-flight (C08) and no further pay
# is issued while it is (C05).
def stale_tail_jobs(start_run=1):
    jobs = []
    run = start_run
    cfg = dict(CFG_A)
    p = pool(cfg, 10)
    g = p["good"][2]
    g2 = dict(g); g2["exp"] = g["exp"] + 1; g2["rel"] = g["rel"] + 1
    ds = lambda key: {"kind": "ds", "hash": "h1", "key": key}
    X = lambda sel, who="own", fault="none": {"a": "exec", "sel": sel, "fault": fault, "who": who}
    D = lambda sel, who="own": {"a": "deliver", "sel": sel, "who": who}
    lds = {"kind": "listds", "hash": "h1"}; payc = {"kind": "pay", "hash": "h1"}
    lp = {"kind": "lists", "hash": "h1", "status": "pending"}; lc = {"kind": "lists", "hash": "h1", "status": "complete"}
    for held in ("att", "state"):
        for part in ("pending", "complete"):
            for end in ("crash", "crash_tick", "complete", "failed"):
                s = [{"a": "htlc", "i": 1}, X(lds), D(lds), X(ds("state")), D(ds("state")), X(ds("att")), D(ds("att")), X(payc),
                     {"a": "payreturn", "sel": payc, "outcome": "failed"}, D(payc)]
                if held == "state":
                    s += [X(ds("att")), D(ds("att"))]
                s += [{"a": "htlc", "i": 2}, X(lds), D(lds), X(lp), D(lp), X(lc), D(lc),
                      X(ds("att")), D(ds("att")), X(ds("state")), D(ds("state")),       # the new lifecycle frees the record ...
                      X(ds("state")), D(ds("state")), X(ds("att")), D(ds("att")),       # ... and records attempt 2
                      X(payc), {"a": "paypart", "sel": payc}]
                if part == "complete":
                    s += [{"a": "partdone", "p": 1, "how": "complete", "code": 203}]
                if held == "att":
                    s += [X(ds("att"), "tail"), D(ds("att"), "tail")]
                s += [X(ds("state"), "tail"), D(ds("state"), "tail")]
                # whatever the old lifecycle does after the refusal
                s += [X(lds, "tail"), D(lds, "tail"), X(ds("att"), "tail"), D(ds("att"), "tail"), X(ds("state"), "tail"), D(ds("state"), "tail")]
                if end.startswith("crash"):
                    s += [{"a": "crash", "lose": False}, {"a": "htlc", "i": 2}, X(lds), D(lds), X(lp), D(lp), X(lc), D(lc)]
                    s += [{"a": "tick"}] * (cfg["mpp"] + 1 if end == "crash_tick" else 0)
                    s += [X(ds("state")), D(ds("state")), X(ds("att")), D(ds("att")), X(payc), {"a": "paypart", "sel": payc}]
                    if part == "pending":
                        s += [{"a": "tick"}, {"a": "partdone", "p": 1, "how": "complete", "code": 203}]
                    s += [X({"kind": "wait", "hash": "h1", "part": 1}), D({"kind": "wait", "hash": "h1", "part": 1})]
                else:
                    if part == "pending":
                        s += [{"a": "partdone", "p": 1, "how": end, "code": 203}]
                    s += [{"a": "payreturn", "sel": payc, "outcome": "complete" if part == "complete" else end}, D(payc)]
                jobs.append({"run": run, "scen": {"cfg": cfg, "invs": invs_for(10), "htlcs": [g, g2], "probe": []}, "sched": s,
                             "drain": True, "tag": "directed:stale_tail"})
                run += 1
    return jobs
