"""Scenario families and job generation for Engine A (lifecycle traces)."""
import json, random

CFG_A = {"base": 1, "ppm": 0, "pdelta": 40, "sdelta": 10, "mpp": 2, "h0": 100}
# 1% fee, base 0: amount 1000 needs 1010
CFG_B = {"base": 0, "ppm": 10000, "pdelta": 40, "sdelta": 10, "mpp": 3, "h0": 100}
CFG_C = {"base": 2, "ppm": 100000, "pdelta": 30, "sdelta": 5, "mpp": 1, "h0": 200}

def H(hash, inv, amt, total, exp, rel, **kw):
    d = {"hash": hash, "inv": inv, "amt": amt, "total": total, "exp": exp, "rel": rel}
    d.update(kw)
    return d

def invs_for(A):
    """invoice catalogue of the lifecycle families, for amount A"""
    return [
        {"hash": "h1", "amt": A},                 # 1
        {"hash": "h1", "amt": A, "variant": 1},   # 2: another invoice for the same hash
        {"hash": "h1", "amt": 0},                 # 3: amountless
        {"hash": "h2", "amt": A},                 # 4
        {"hash": "h1", "amt": A, "hint": True},   # 5: routed through ourselves
    ]
INVS = invs_for(10)

def need_of(cfg, A):
    return A + cfg["base"] + A * cfg["ppm"] // 10**6

def pool(cfg, A=10):
    """HTLC pool for this policy: a set has to bring N = A + fee."""
    h0 = cfg["h0"]; pd = cfg["pdelta"]
    N = need_of(cfg, A)
    p1 = N // 2 + 1; p2 = N - p1
    good = [
        H("h1", 1, p1, N, h0 + pd + 10, pd + 10),
        H("h1", 1, p2, N, h0 + pd + 20, pd + 20),
        H("h1", 1, N, N, h0 + pd + 30, pd + 30),
        H("h1", 1, p1 + 1, N + 1, h0 + pd + 5, pd + 5),
    ]
    bad = [
        H("h1", 2, p2, N, h0 + pd + 30, pd + 30),        # conflicting invoice
        H("h1", 1, p2, N, h0 + pd - 10, pd - 10),        # relative expiry too low
        H("h1", 1, p2, N - 1, h0 + pd + 30, pd + 30),    # declared total too low
        H("h1", 3, p2, N, h0 + pd + 30, pd + 30, decl=A, decl_len=-2),  # amountless + declared (conflicts with inv 1)
    ]
    other = [
        H("h2", 1, N, N, h0 + pd + 30, pd + 30),       # foreign hash carrying an invoice for h1
        H("h1", 1, N, N, h0 + pd + 30, pd + 30, fwd=True),   # plain forward
        H("h1", 0, N, N, h0 + pd + 30, pd + 30),       # no invoice
        H("h1", 5, N, N, h0 + pd + 30, pd + 30),       # self route hint (allowed by default)
    ]
    h2 = [
        H("h2", 4, p1, N, h0 + pd + 12, pd + 12),
        H("h2", 4, p2, N, h0 + pd + 22, pd + 22),
        H("h2", 4, N, N, h0 + pd + 32, pd + 32),
    ]
    amtless = [
        H("h1", 3, p1, N, h0 + pd + 10, pd + 10, decl=A, decl_len=-2),
        H("h1", 3, p2, N, h0 + pd + 20, pd + 20, decl=A, decl_len=-2),
        H("h1", 3, p2, N, h0 + pd + 20, pd + 20, decl=A - 1, decl_len=-2),   # conflicting declared amount
    ]
    return {"good": good, "bad": bad, "other": other, "h2": h2, "amtless": amtless}

PROBE = [H("h1", 1, 11, 11, 100 + 40 + 50, 90)]
POLICIES = [  # (cfg, amount): varied policies (C12: the failure carries exactly the configured policy)
    (CFG_A, 10), (CFG_A, 10), (CFG_B, 1000), (CFG_C, 100),
    ({"base": 1000, "ppm": 5000, "pdelta": 1008, "sdelta": 34, "mpp": 2, "h0": 800000}, 100000),
    ({"base": 65539, "ppm": 1000000, "pdelta": 144, "sdelta": 40, "mpp": 1, "h0": 500}, 7),
]

def rand_scenario(rng, family, policies=False):
    cfg, A = (rng.choice(POLICIES) if policies else (CFG_A, 10))
    cfg = dict(cfg)
    if rng.random() < 0.3:
        cfg["mpp"] = rng.choice([0, 1, 3])
    if rng.random() < 0.2:
        cfg["selfhints"] = False
    p = pool(cfg, A)
    hs = []
    if family == "base":
        hs = rng.sample(p["good"], rng.randint(1, 3))
        if rng.random() < 0.5:
            hs.append(rng.choice(p["bad"]))
        if rng.random() < 0.3:
            hs.append(rng.choice(p["other"]))
    elif family == "amtless":
        hs = rng.sample(p["amtless"], rng.randint(1, 3))
        if rng.random() < 0.3:
            hs.append(rng.choice(p["good"]))
    elif family == "twohash":
        hs = rng.sample(p["good"][:3], rng.randint(1, 2)) + rng.sample(p["h2"], rng.randint(1, 2))
    elif family == "overlap":
        # two successive fully funding sets
        hs = [p["good"][2], p["good"][0], p["good"][1]]
        if rng.random() < 0.4:
            hs.append(p["good"][3])
    elif family == "other":
        hs = rng.sample(p["other"], rng.randint(1, 3)) + rng.sample(p["good"], rng.randint(0, 2))
    rng.shuffle(hs)
    N = need_of(cfg, A)
    return {"cfg": cfg, "invs": invs_for(A), "htlcs": hs,
            "probe": [H("h1", 1, N, N, cfg["h0"] + cfg["pdelta"] + 50, cfg["pdelta"] + 50)]}

def rand_jobs(seed, n, families, crashes=(0, 1), wfaults=0, rfaults=0, probes=0, heights=False, freeze=False, start_run=1, steps=(25, 60), direct=0, policies=False):
    rng = random.Random(seed)
    jobs = []
    for k in range(n):
        fam = families[k % len(families)]
        scen = rand_scenario(rng, fam, policies)
        r = {"seed": rng.getrandbits(48), "steps": rng.randint(*steps),
             "crashes": rng.choice(crashes), "wfaults": rng.randint(0, wfaults), "rfaults": rng.randint(0, rfaults),
             "maxparts": rng.choice([1, 2, 2, 3]), "maxpays": 3, "maxclock": 8, "heights": heights}
        if freeze:
            r["freeze"] = "h1"
        if direct:
            r["direct"] = direct
            r["maxparts"] = rng.choice([0, 1, 2, 3])
            scen["htlcs"] = []
        jobs.append({"run": start_run + k, "scen": scen, "rand": r, "probes": probes, "tag": fam})
    return jobs
