"""Running the harness and the TLC trace specs in parallel."""
import json, os, subprocess, re, shutil, time
from concurrent.futures import ThreadPoolExecutor

# root of this verification tree (normally /verif; a snapshot under /root/.vp/runs/<n>/verif for `vp run`)
VERIF = os.path.dirname(os.path.dirname(os.path.dirname(os.path.realpath(__file__))))
SPEC = VERIF + "/spec"
WORK = VERIF + "/work"
# the repository under test: /repo.  VERIF_REPO may point at another checkout (only used to evaluate seeded changes in
# scratch worktrees without touching /repo); each checkout gets its own build directory.
REPO = os.environ.get("VERIF_REPO", "/repo")
TAG = "" if REPO == "/repo" else "_" + os.path.basename(REPO.rstrip("/"))
TDIR = VERIF + "/target/harness" + TAG
VFH = TDIR + "/debug/vfh"
JOPTS = "-Xss1g -Dtlc2.tool.queue.IStateQueue=StateDeque"

class ToolError(Exception):
    pass

def cargo_build(profile="dev"):
    env = dict(os.environ, CARGO_NET_OFFLINE="true")
    # the harness binary must land where VFH points, whatever the caller's environment says
    for k in ("CARGO_TARGET_DIR", "CARGO_BUILD_TARGET_DIR", "RUSTFLAGS", "CARGO_ENCODED_RUSTFLAGS"):
        env.pop(k, None)
    if not os.path.exists(VERIF + "/harness/Cargo.lock"):
        shutil.copy(REPO + "/Cargo.lock", VERIF + "/harness/Cargo.lock")
    env["VERIF_REPO"] = REPO
    cmd = ["cargo", "build", "--offline", "--target-dir", TDIR] + (["--profile", profile] if profile != "dev" else [])
    p = subprocess.run(cmd, cwd=VERIF + "/harness", env=env, capture_output=True, text=True)
    if p.returncode != 0:
        raise ToolError("harness does not build against /repo:\n" + p.stderr[-4000:])

def split(lst, k):
    k = max(1, min(k, len(lst)))
    return [lst[i::k] for i in range(k)]

class PluginDied(Exception):
    """the process running the plugin's code died (not a panic) while executing `job`"""
    def __init__(self, job, what):
        Exception.__init__(self, what)
        self.job = job; self.what = what

def run_harness(jobs, workdir, nproc=16, mode="run"):
    """Run jobs in nproc harness processes; returns list of trace files."""
    os.makedirs(workdir, exist_ok=True)
    chunks = split(jobs, nproc)
    files = []
    procs = []
    for k, ch in enumerate(chunks):
        jf = f"{workdir}/jobs{k}.ndjson"; tf = f"{workdir}/trace{k}.ndjson"
        with open(jf, "w") as f:
            for j in ch:
                f.write(json.dumps(j) + "\n")
        procs.append((subprocess.Popen([VFH, mode, jf, tf], stderr=subprocess.PIPE, text=True), tf))
    died = None
    for k, (p, tf) in enumerate(procs):
        _, err = p.communicate()
        if p.returncode != 0:
            if mode == "run" and (p.returncode < 0 or p.returncode in (101, 134, 139)) and "HARNESS PANIC" not in (err or ""):
                # the process itself died (abort, stack overflow, allocation failure): that is the plugin's code taking
                # the process down, which no panic hook can record.  Find the job that does it.
                died = died or (chunks[k], err)
                continue
            raise ToolError(f"harness exited {p.returncode}: {err[-2000:]}")
        files.append(tf)
    if died:
        ch, err = died
        for j in ch:
            jf = f"{workdir}/one.ndjson"; tf = f"{workdir}/one_trace.ndjson"
            open(jf, "w").write(json.dumps(j) + "\n")
            q = subprocess.run([VFH, mode, jf, tf], stderr=subprocess.PIPE, text=True)
            if q.returncode != 0:
                raise PluginDied(j, f"exit status {q.returncode}: {(q.stderr or '')[-600:]}")
        raise ToolError(f"harness died ({err[-600:]}) but no single job reproduces it")
    return files

def tlc_trace(spec, cfg, trace, metadir, timeout=900, extra_env=None):
    env = dict(os.environ, TRACE=trace, JAVA_TOOL_OPTIONS=JOPTS)
    if extra_env:
        env.update(extra_env)
    env["JAVA_TOOL_OPTIONS"] = env["JAVA_TOOL_OPTIONS"] + " -Xmx3g"
    cmd = ["timeout", str(timeout), "tlc", "-workers", "1", "-metadir", metadir, "-cleanup", "-noGenerateSpecTE",
           "-config", cfg, spec]
    p = subprocess.run(cmd, cwd=SPEC, env=env, capture_output=True, text=True)
    shutil.rmtree(metadir, ignore_errors=True)
    return p.returncode, p.stdout

# TLC wraps long values over several lines: be tolerant about white space
RUNVIOL = re.compile(r'<<\s*"RUNVIOL",\s*(\d+),\s*\{([^}]*)\},\s*\{([^}]*)\},\s*\{([^}]*)\}\s*>>')

def tagged(out, tag):
    """all PrintT tuples <<"TAG", n, ...>> of a TLC output, as (n, text)"""
    res = []
    for m in re.finditer(r'<<\s*"' + tag + r'",\s*(-?\d+)\s*,?(.*?)>>', out, re.S):
        res.append((int(m.group(1)), " ".join(m.group(0).split())))
    return res


def observe(trace_files, workdir, njvm=12):
    """Observer over each trace file. Returns ({run: set(props)}, lines, stats)."""
    viol = {}
    total_lines = 0
    def one(k_tf):
        k, tf = k_tf
        rc, out = tlc_trace("Observer.tla", "Observer.cfg", tf, f"{workdir}/obs{k}")
        return tf, rc, out
    with ThreadPoolExecutor(max_workers=njvm) as ex:
        results = list(ex.map(one, enumerate(trace_files)))
    for tf, rc, out in results:
        n = sum(1 for _ in open(tf))
        total_lines += n
        if "STUCK at line" in out or rc not in (0,):
            if "Model checking completed. No error has been found" not in out:
                raise ToolError(f"Observer could not walk {tf} (rc={rc}):\n" + out[-3000:])
        for m in RUNVIOL.finditer(out):
            run = int(m.group(1))
            f = lambda g: set(x.strip().strip('"') for x in g.split(",") if x.strip())
            viol[run] = (f(m.group(2)), f(m.group(3)), f(m.group(4)))
    return viol, total_lines


DRIFT = re.compile(r'<<\s*"DRIFT",\s*(\d+),\s*"([a-z]+)"\s*>>')

def conform(name, trace, metadir, timeout=1800):
    """CF_<name> over a trace file.  Returns (accepted, [(line, ev)] drift lines, raw output)."""
    env = dict(os.environ, TRACE=trace, JAVA_TOOL_OPTIONS=JOPTS + " -Xmx4g -DTLA-Library=" + VERIF + "/spec")
    cmd = ["timeout", str(timeout), "tlc", "-workers", "1", "-metadir", metadir, "-cleanup", "-noGenerateSpecTE",
           "-config", f"CF_{name}.cfg", f"CF_{name}.tla"]
    p = subprocess.run(cmd, cwd=SPEC + "/mc", env=env, capture_output=True, text=True)
    shutil.rmtree(metadir, ignore_errors=True)
    out = p.stdout
    drifts = sorted(set((int(m.group(1)), m.group(2)) for m in DRIFT.finditer(out)))
    ok = "No error has been found" in out
    return ok, drifts, out
