#!/bin/bash
# corpus.sh <stream> <nstreams>: run every archived seeded change (seeded/<name>/patch.diff) through the quick check of
# the property it was written against, from the framework tree VERIF_DIR (default /verif).  One line per seed.
V=${VERIF_DIR:-/verif}; K=$1; N=$2
i=0
for d in $(ls -d /verif/seeded/*/ | sort); do
  i=$((i+1)); [ $((i % N)) -eq $K ] || continue
  name=$(basename $d); prop=$(python3 -c "import json;print(json.load(open('$d/meta.json'))['breaks_property'])")
  W=/tmp/mut/cp_$name
  git -C /repo worktree add -q $W HEAD 2>/dev/null || { echo "$name worktree failed"; continue; }
  if ! git -C $W apply $d/patch.diff 2>/dev/null; then echo "$name $prop patch does not apply"; git -C /repo worktree remove --force $W; continue; fi
  [ -d $V/target/harness_cp_$name ] || cp -a $V/target/harness $V/target/harness_cp_$name
  ( cd $V; VERIF_REPO=$W bin/vf check $prop --tier quick > /tmp/mut/corpus_$name.log 2>&1; echo "$name $prop exit $?" )
  rm -rf $V/target/harness_cp_$name $V/target/e2e_cp_$name $V/work/*_cp_$name
  git -C /repo worktree remove --force $W
done
