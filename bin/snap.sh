#!/bin/bash
# snap.sh <name>: copy the committed-or-not current /verif tree (without work dirs and per-tag build dirs) to /tmp/vsnap/<name>,
# so that long evaluations do not see later edits of the live tree.  Prints the path.
N=$1; D=/tmp/vsnap/$N
mkdir -p /tmp/vsnap; rm -rf $D
rsync -a --exclude 'work/*' --exclude 'target/harness_*' --exclude 'target/e2e_*' /verif/ $D/
mkdir -p $D/work
echo $D
