#!/bin/bash
# usage: seedcheck.sh <worktree-id> <demo filter> <check ids...>
# 1. confirm (in the scratch worktree /tmp/mut/<id>, which has the seeded change and its demonstration applied):
#    with the change the 56 baseline tests pass and the demonstration fails; without it the demonstration passes.
# 2. run the given checks against that worktree (VERIF_REPO): /repo itself is never touched.
set -u
ID=$1; FILTER=$2; shift 2
W=/tmp/mut/$ID
export CARGO_TARGET_DIR=/tmp/mut/target_confirm_$ID CARGO_NET_OFFLINE=true RUST_BACKTRACE=0
cd $W || exit 2
touch src/main.rs
echo "== with change: full suite"
cargo test --offline 2>&1 | grep -E "^test result|FAILED|failed" | head -8
echo "== without change: demonstration"
git apply -R _out/patch.diff || { echo "cannot reverse patch"; exit 2; }
cargo test --offline $FILTER 2>&1 | grep -E "^test result|FAILED|failed" | head -5
git apply _out/patch.diff
unset CARGO_TARGET_DIR
rm -rf /tmp/mut/target_confirm_$ID
echo "== framework checks against the worktree with the change"
[ -d /verif/target/harness_$ID ] || cp -a /verif/target/harness /verif/target/harness_$ID
cd /verif
for c in "$@"; do
  echo "-- check $c"; VERIF_REPO=$W bin/vf check $c 2>&1 | grep -E "VIOLATION|KNOWN-F|TOOL" | head -3; echo "exit ${PIPESTATUS[0]}"
done
rm -rf /verif/target/harness_$ID /verif/target/e2e_$ID /verif/work/*_$ID
