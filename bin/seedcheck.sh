#!/bin/bash
# usage: seedcheck.sh <worktree-id> <demo filter> <check ids...>     (VERIF_DIR: the framework tree to use, default /verif)
# 1. confirm (in the scratch worktree /tmp/mut/<id>, which has the seeded change and its demonstration applied):
#    with the change the 56 baseline tests pass and the demonstration fails; without it the demonstration passes.
# 2. run the given checks against that worktree (VERIF_REPO): /repo itself is never touched.
set -u
V=${VERIF_DIR:-/verif}
ID=$1; FILTER=$2; shift 2
W=/tmp/mut/$ID
export CARGO_TARGET_DIR=/tmp/mut/target_confirm_$ID CARGO_NET_OFFLINE=true RUST_BACKTRACE=0
cd $W || exit 2
touch src/main.rs
echo "== with change: full suite"
cargo test --offline 2>&1 | grep -E "^test result|FAILED|failed" | head -8
echo "== without change: demonstration"
git apply -R _out/patch.diff || { echo "cannot reverse patch"; exit 2; }
cargo test --offline $FILTER 2>&1 | grep -E "^test result|FAILED|failed" | head -5
git apply _out/patch.diff
unset CARGO_TARGET_DIR
rm -rf /tmp/mut/target_confirm_$ID
echo "== framework checks against the worktree with the change"
[ -d $V/target/harness_$ID ] || cp -a $V/target/harness $V/target/harness_$ID
cd $V
for c in "$@"; do
  tier=quick; case $c in *:t) tier=thorough; c=${c%:t};; esac
  echo "-- check $c ($tier)"; VERIF_REPO=$W bin/vf check $c --tier $tier > /tmp/mut/seed_${ID}_$c.log 2>&1; e=$?
  grep -E "VIOLATION|TOOL" /tmp/mut/seed_${ID}_$c.log | head -3; echo "exit $e"
done
rm -rf $V/target/harness_$ID $V/target/e2e_$ID $V/work/*_$ID
