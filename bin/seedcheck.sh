#!/bin/bash
# usage: seedcheck.sh <worktree-id> <demo filter> <check ids...>
# 1. confirm (in the scratch worktree): with the seeded change the 56 baseline tests pass and the demonstration fails;
#    without it the demonstration passes.  2. apply the change to /repo, run the given checks, undo.
set -u
ID=$1; FILTER=$2; shift 2
W=/tmp/mut/$ID
export CARGO_TARGET_DIR=/tmp/mut/target_confirm CARGO_NET_OFFLINE=true RUST_BACKTRACE=0
cd $W || exit 2
touch src/main.rs
echo "== with change: full suite"
cargo test --offline 2>&1 | grep -E "^test result|FAILED|failed" | head -8
echo "== without change: demonstration"
git apply -R _out/patch.diff || { echo "cannot reverse patch"; exit 2; }
cargo test --offline $FILTER 2>&1 | grep -E "^test result|FAILED|failed" | head -5
git apply _out/patch.diff
unset CARGO_TARGET_DIR
echo "== framework checks on /repo with the change"
cd /repo && git apply $W/_out/patch.diff || { echo "patch does not apply to /repo"; exit 2; }
cd /verif
for c in "$@"; do
  echo "-- check $c"; bin/vf check $c 2>&1 | grep -E "VIOLATION|KNOWN-F|TOOL" | head -3; echo "exit ${PIPESTATUS[0]}"
done
git -C /repo checkout -- . ; git -C /repo status --short
