------------------------------ MODULE Classify ------------------------------
(***************************************************************************)
(* What an htlc_accepted request IS, as a function of its abstract shape   *)
(* (C10, C13): a trampoline HTLC ("tramp": joins the payment of its hash), *)
(* a pass-through ("cont": answered `continue`), or an invoice routed via  *)
(* ourselves while that is disallowed ("failnode").  Written from the      *)
(* property statements, not from the code.                                 *)
(*   s    : [hash, inv, decl, decl_len, fwd, fwdmsat, meta, ...]           *)
(*          inv = index into invs (0 = no invoice record in the metadata)  *)
(*          decl_len = -1: no amount field; -2: minimal encoding of decl;  *)
(*          0..: that many bytes (well-formed iff <= 8)                    *)
(*   invs : Seq([hash, amt (0 = amountless), hint, payee, form])           *)
(***************************************************************************)
EXTENDS Integers, Sequences

WellFormedAmount(s) == s.decl_len = -2 \/ (s.decl_len >= 0 /\ s.decl_len <= 8)

\* amount to deliver; -1 = ambiguous or missing
AmountOf(s, v) ==
  IF v.zero          \* the invoice states an amount of 0: an amount field naming anything else contradicts it
  THEN IF WellFormedAmount(s) /\ s.decl # 0 THEN -1 ELSE 0
  ELSE IF v.amt # 0
  THEN IF WellFormedAmount(s) /\ s.decl # v.amt THEN -1 ELSE v.amt
  ELSE IF WellFormedAmount(s) THEN s.decl ELSE -1

ClassOf(s, invs, selfhints) ==
  IF s.fwd THEN "cont"
  ELSE IF s.meta \notin {"ok", "swapped"} THEN "cont"   \* ("swapped": the amount record precedes the invoice record)
  ELSE IF s.inv = 0 THEN "cont"
  ELSE LET v == invs[s.inv] IN
       IF v.form \notin {"ok", "noncanon", "nfield"} THEN "cont"   \* does not parse / bad signature ("noncanon": valid, unusual text)
       ELSE IF v.hash # s.hash THEN "cont"     \* invoice is for another payment hash
       ELSE IF AmountOf(s, v) = -1 THEN "cont"
       ELSE IF v.hint /\ ~selfhints THEN "failnode"
       ELSE IF ~s.fwdmsat THEN "cont"
       ELSE "tramp"

\* for a trampoline HTLC: amount to deliver and the payee the invoice names
TrampAmount(s, invs) == AmountOf(s, invs[s.inv])
TrampPayee(s, invs) == invs[s.inv].payee
=============================================================================
