CONSTANTS
  M = 128
  P = 32
  Div = 8
  PreFix = FALSE
SPECIFICATION Spec
INVARIANT Agree
CHECK_DEADLOCK FALSE
