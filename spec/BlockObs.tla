------------------------------- MODULE BlockObs -------------------------------
(***************************************************************************)
(* Black-box judge of the real BlockWatcher for C20.  The height the code  *)
(* reports after every step is READ from the trace; what it has been told  *)
(* (poll results delivered, notification heights) is recomputed from the   *)
(* logged events.  C20: reported height = maximum told so far, never       *)
(* decreasing; at least the last successful poll result; with no poll      *)
(* outstanding the next one is due within one interval.                    *)
(***************************************************************************)
EXTENDS Integers, FiniteSets, Sequences, Json, IOUtils, TLC

CONSTANT Interval
Rec == ndJsonDeserialize(IOEnv.TRACE)
N == Len(Rec)
MaxSet(S) == IF S = {} THEN 0 ELSE CHOOSE x \in S : \A y \in S : x >= y

VARIABLES l, known, told, lastPolled, now, out, res, sleepUntil, ok, viol
vars == <<l, known, told, lastPolled, now, out, res, sleepUntil, ok, viol>>

Init == l = 1 /\ known = 0 /\ told = 0 /\ lastPolled = -1 /\ now = 0 /\ out = 0 /\ res = -1
        /\ sleepUntil = 0 /\ ok = FALSE /\ viol = {}

Line == Rec[l]
Judge(k, t, lp, o, su, n, started) ==
  (IF started /\ k # t THEN {"KnownIsMax"} ELSE {})
  \cup (IF started /\ ok /\ k < known THEN {"Monotone"} ELSE {})
  \cup (IF started /\ lp # -1 /\ k < lp THEN {"CaughtUp"} ELSE {})
  \cup (IF started /\ Line.ev # "batch" /\ o = 0 /\ ~(n < su) THEN {"PollOnTime"} ELSE {})

Next ==
  /\ l <= N /\ l' = l + 1
  /\ IF Line.ev = "reset"
     THEN /\ known' = 0 /\ told' = 0 /\ lastPolled' = -1 /\ now' = 0 /\ out' = 0 /\ res' = -1
          /\ sleepUntil' = 0 /\ ok' = FALSE /\ viol' = {}
     ELSE IF Line.ev = "end"
     THEN /\ (viol # {} => PrintT(<<"BLKVIOL", Line.run, viol>>))
          /\ UNCHANGED <<known, told, lastPolled, now, out, res, sleepUntil, ok, viol>>
     ELSE LET started == Line.started = "ok"
              Mx(a, b) == IF a >= b THEN a ELSE b
              \* `told` is the maximum of everything told so far (the set itself is not needed)
              t1 == IF Line.ev = "deliver" /\ res # -1 THEN Mx(told, res)
                    ELSE IF Line.ev = "notify" THEN Mx(told, Line.h)
                    \* several sources at the very same time (real threads): all of them have been told afterwards
                    ELSE IF Line.ev = "batch" THEN Mx(told, MaxSet({Line.hs[k] : k \in 1..Len(Line.hs)})) ELSE told
              lp1 == IF Line.ev = "deliver" /\ res # -1 THEN res ELSE lastPolled
              n1 == IF Line.ev = "tick" THEN now + 1 ELSE now
              o1 == (IF Line.ev = "deliver" THEN out - 1 ELSE out) + Line.issued
              su1 == IF Line.ev = "deliver" THEN now + Interval ELSE sleepUntil
              k1 == IF started THEN Line.known ELSE 0
          IN /\ told' = t1 /\ lastPolled' = lp1 /\ now' = n1 /\ out' = o1 /\ sleepUntil' = su1
             /\ known' = k1 /\ ok' = started
             /\ res' = IF Line.ev = "exec" THEN Line.res ELSE res
             /\ viol' = viol \cup Judge(k1, t1, lp1, o1, su1, n1, started)
Spec == Init /\ [][Next]_vars
Accepted == TLCGet("stats").diameter - 1 = N
=============================================================================
