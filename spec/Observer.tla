------------------------------ MODULE Observer ------------------------------
(***************************************************************************)
(* Black-box judge of executions of the REAL code.  Reads a trace recorded *)
(* by the harness (one line per environment event, with the plugin's       *)
(* complete reaction in `out`), recomputes the node's ground truth with    *)
(* Node!NodeStep from the logged arguments, compares the node-side results *)
(* the harness logged with Node!ExecRes ("TOOL" on disagreement), and      *)
(* evaluates every predicate of Props on every line.  The plugin is a      *)
(* black box here: its outputs are read, never predicted.                  *)
(* Many runs are concatenated in one file; a `reset` line starts a run and *)
(* an `end` line reports the predicates violated in it.                    *)
(***************************************************************************)
EXTENDS Props, Classify, Tlv, Json, IOUtils, SequencesExt

Rec == ndJsonDeserialize(IOEnv.TRACE)
N == Len(Rec)

VARIABLES
  l,        \* next line to consume
  calls,    \* [call id -> [c, st, res]]
  runinfo,  \* [run, invs, probeIds, frozen]
  viol,     \* [pre, post]: names of the predicates violated so far in this run,
            \*   before / after the first known-finding pattern occurred in it
  kf,       \* known-finding patterns seen so far in this run (see KfTags)
  nt        \* failure notifications (growth predicate NOTIFY): [direct, h: [hash -> [open, owed]]]
ovars == <<nodeVars, l, calls, runinfo, viol, kf, nt>>

Has(r, f) == f \in DOMAIN r

ZeroCfg == [base |-> 0, ppm |-> 0, pdelta |-> 0, sdelta |-> 0, mpp |-> 0, h0 |-> 0]

Init ==
  /\ NodeInit(ZeroCfg)
  /\ htlc = <<>>
  /\ l = 1
  /\ calls = <<>>
  /\ runinfo = [run |-> 0, invs |-> <<>>, probeIds |-> {}, frozen |-> {}]
  /\ viol = [pre |-> {}, post |-> {}]
  /\ kf = {}
  /\ nt = [direct |-> FALSE, h |-> [h \in Hashes |-> [open |-> FALSE, owed |-> 0]]]

---------------------------------------------------------------------------
(* trace line -> records of Node/Props                                      *)

\* a call record from an `issue` item or an exec/deliver line
CallRec(o) ==
  CASE o.kind = "listds" -> [kind |-> "listds", hash |-> o.hash, key |-> o.key]
    [] o.kind = "ds" -> [kind |-> "ds", hash |-> o.hash, key |-> o.key, a |-> o.a, mode |-> o.mode,
                         gen |-> o.gen, val |-> o.val]
    [] o.kind = "lists" -> [kind |-> "lists", hash |-> o.hash, status |-> o.status]
    [] o.kind = "wait" -> [kind |-> "wait", hash |-> o.hash, part |-> o.part, timeout |-> o.timeout, at |-> o.at]
    [] o.kind = "pay" -> [kind |-> "pay", hash |-> o.hash, inv |-> o.inv, amount |-> o.amount,
                          maxfee |-> o.maxfee, maxdelay |-> o.maxdelay,
                          invamt |-> IF o.inv >= 1 /\ o.inv <= Len(runinfo.invs) THEN runinfo.invs[o.inv].amt ELSE 0,
                          retry |-> o.retry, label |-> o.label, risk |-> o.risk, other |-> o.other]
    [] o.kind = "getinfo" -> [kind |-> "getinfo", hash |-> ""]
    [] OTHER -> [kind |-> o.kind, hash |-> ""]

\* the harness's abstract result, with lists turned into sets
NormRes(c, r) ==
  IF c.kind = "lists" /\ r.r = "ok" THEN [r |-> "ok", parts |-> Range(r.parts)] ELSE r

Items(line, kind) == {k \in 1..Len(line.out) : line.out[k].o = kind}

Reaction(line) ==
  LET ans == Items(line, "answer")
      ids == {line.out[k].i : k \in ans}
  IN [answers |-> [i \in ids |->
                     LET k == CHOOSE k \in ans : line.out[k].i = i IN
                     [r |-> line.out[k].r, key |-> line.out[k].key, code |-> line.out[k].code]],
      issues  |-> {CallRec(line.out[k]) : k \in Items(line, "issue")},
      drops   |-> {[c |-> calls[line.out[k].call].c, cst |-> calls[line.out[k].call].st]
                     : k \in {j \in Items(line, "drop") : line.out[j].call \in DOMAIN calls}},
      npanic  |-> Cardinality(Items(line, "panic")),
      rets    |-> {[fn |-> line.out[k].fn, hash |-> line.out[k].hash, r |-> line.out[k].r, key |-> line.out[k].key]
                     : k \in Items(line, "ret")}]

\* the static HTLC record of an `htlc` line (class per Classify)
HtlcRec(line) ==
  LET cls == IF line.big THEN "opaque" ELSE ClassOf(line, runinfo.invs, cfg.selfhints)
      v == IF line.inv >= 1 /\ line.inv <= Len(runinfo.invs) THEN runinfo.invs[line.inv]
           ELSE [hash |-> "", amt |-> 0]
  IN [hash |-> line.hash, cls |-> cls, key |-> IF cls = "tramp" THEN v.hash ELSE line.hash,
      inv |-> line.inv, A |-> IF cls = "tramp" THEN AmountOf(line, v) ELSE 0,
      \* (without total_msat the onion's forward_msat is what the sender declares for the whole payment)
      amt |-> line.amt, total |-> IF line.total # 0 THEN line.total ELSE IF line.fwd_amt # 0 THEN line.fwd_amt ELSE line.amt,
      exp |-> line.exp, rel |-> line.rel,
      ord |-> 0, fb |-> FALSE, st |-> "unsent", resp |-> NoResp]

CallsAfter(line, base) ==
  LET iss1 == Items(line, "issue")
      newIds == {line.out[k].call : k \in iss1}
      dropIds == {line.out[k].call : k \in Items(line, "drop")}
  IN [id \in (DOMAIN base) \cup newIds |->
        IF id \in newIds
        THEN LET k == CHOOSE k \in iss1 : line.out[k].call = id IN
             [c |-> CallRec(line.out[k]), st |-> "issued", res |-> [r |-> "none"],
              lc |-> IF "lc" \in DOMAIN line.out[k] THEN line.out[k].lc ELSE 0]
        ELSE IF id \in dropIds THEN [base[id] EXCEPT !.st = "dropped"]
        ELSE base[id]]

---------------------------------------------------------------------------
(* predicates that only exist on recorded traces                            *)

\* C12: the fee failure carries exactly the configured policy
C12bytes(line) == \A k \in Items(line, "answer") :
   line.out[k].r = "fail" /\ line.out[k].code = "fee" => line.out[k].bytes = FeeBytes
\* failure messages are one of the three the plugin defines
C06codes(line) == \A k \in Items(line, "answer") :
   line.out[k].r = "fail" => line.out[k].code \in {"node", "tramp", "fee"}

\* C13: if the onion payload is rewritten at all, only the payment-metadata record (type 16)
\* is removed; every other record is preserved byte for byte and in order
C13payload(line) ==
  line.ev = "htlc" /\ Has(line, "payload_in") =>
    \A k \in Items(line, "answer") :
      line.out[k].r = "continue" /\ line.out[k].payload # "none" =>
        /\ Valid(line.payload_in)
        /\ LET want == Encode(StripMetadata(Decode(line.payload_in))) IN
           \/ line.out[k].pbytes = want
           \/ line.out[k].pbytes = WriteBS(FromSmall(Len(want))) \o want

\* C10: the payee reported for a failed trampoline payment is the key the invoice's signature
\* verifies against, for the invoice's own payment hash
C10payee(line) == \A k \in Items(line, "notify") :
   LET o == line.out[k] IN
   o.inv >= 1 /\ o.inv <= Len(runinfo.invs) /\ o.payee = runinfo.invs[o.inv].payee /\ o.hash = runinfo.invs[o.inv].hash

\* C10: the invoice handed to pay is, character for character, an invoice an HTLC of the run carried (index 0 = a
\* string the harness never put into any HTLC, e.g. a re-encoding that nobody signed)
C10text == \A c \in PayIss : c.inv # 0

\* every pay request carries the configured retry time and nothing unexpected
PayShape(line) == \A c \in {CallRec(line.out[k]) : k \in Items(line, "issue")} :
   c.kind = "pay" => c.retry = cfg.retry /\ ~c.other /\ (cfg.xpay => ~c.label /\ ~c.risk)
                     /\ (~cfg.xpay => c.label /\ c.risk)

(* NOTIFY (beyond the listed properties): the operator is told about a failed *)
(* trampoline payment once per failed pay of a lifecycle, and about nothing   *)
(* else.  Black box: a lifecycle has a pay "open" from the moment it issues   *)
(* one until it answers its set; answering the set with a failure outside an  *)
(* arrival burst while the pay is open means pay() failed - one notification  *)
(* for that hash is owed, and must have been emitted when the run has drained *)
(* (a crash forgives it).  Not judged in runs that call the provider directly.*)
NtAns(line, h, onlyFail) ==
  line.ev # "htlc" /\ \E k \in Items(line, "answer") :
     /\ line.out[k].i \in DOMAIN htlc /\ htlc[line.out[k].i].key = h
     /\ (onlyFail => line.out[k].r = "fail")
NtNotes(line, h) == Cardinality({k \in Items(line, "notify") : line.out[k].hash = h})
NtPays(line, h) == \E k \in Items(line, "issue") : line.out[k].kind = "pay" /\ line.out[k].hash = h
NtAdd(line, h) == IF nt.h[h].open /\ NtAns(line, h, TRUE) THEN 1 ELSE 0
NtAfter(line) ==
  IF line.ev = "crash" THEN [nt EXCEPT !.h = [h \in Hashes |-> [open |-> FALSE, owed |-> 0]]]
  ELSE [direct |-> nt.direct \/ line.ev \in {"wpcall", "paycall"},
        h |-> [h \in Hashes |->
                 [open |-> IF NtPays(line, h) THEN TRUE ELSE IF NtAns(line, h, FALSE) THEN FALSE ELSE nt.h[h].open,
                  owed |-> Hi(0, nt.h[h].owed + NtAdd(line, h) - NtNotes(line, h))]]]
NotifyOK(line) ==
  nt.direct \/ line.ev = "crash" \/
    /\ \A h \in Hashes : NtNotes(line, h) <= nt.h[h].owed + NtAdd(line, h)
    /\ \A k \in Items(line, "notify") : line.out[k].hash \in Hashes
    /\ (line.ev = "drained" =>
          \A h \in Hashes \ (IF Has(line, "frozen") THEN Range(line.frozen) ELSE {}) :
             NtAfter(line).h[h].owed = 0)

Judged(line) ==
  [C01 |-> C01, C02 |-> C02, C03 |-> C03, C04 |-> C04, C05 |-> C05,
   C06 |-> C06once /\ C06nopanic /\ C06wellformed /\ C06codes(line),
   C07 |-> C07, C08 |-> C08, C11 |-> C11, C12 |-> C12 /\ C12bytes(line),
   C13 |-> C13 /\ C13payload(line), C10 |-> C10hint /\ C10payee(line) /\ C13 /\ C10text, AUDIT |-> Audit, C15 |-> C15, C16 |-> C16, PAYSHAPE |-> PayShape(line), NOTIFY |-> NotifyOK(line)]

Violated(line) == LET j == Judged(line) IN {p \in DOMAIN j : ~j[p]}

(* Known-finding patterns (DESIGN.md section 11): the specific call site and  *)
(* fault after which a violation is a recorded finding, not a new one.        *)
(*   K2  fetch_payment_info (listdatastore) returned an error                 *)
(*   K1  wait_payment returned an error on the restart path (the lifecycle    *)
(*       that issued the failing listsendpays/waitsendpay has not issued a    *)
(*       pay) and the lifecycle hits todo!() (panic item at that delivery)    *)
(*   K3  wait_payment returned an error inside pay() (the issuing lifecycle   *)
(*       has issued a pay): propagated as a payment failure                   *)
(* An error on the restart path WITHOUT the todo!() panic is no recorded      *)
(* pattern: whatever the code does then is judged in full.                    *)
KfTags(line) ==
  IF line.ev = "deliver" /\ line.call \in DOMAIN calls /\ calls[line.call].res.r = "error"
  THEN IF line.kind = "listds" THEN {"K2"}
       ELSE IF line.kind \in {"lists", "wait"}
            THEN LET lc == calls[line.call].lc
                     paid == lc # 0 /\ \E id \in DOMAIN calls : calls[id].lc = lc /\ calls[id].c.kind = "pay" IN
                 IF paid THEN {"K3"}
                 ELSE IF \E k \in Items(line, "panic") : line.out[k].loc = "htlc_manager.rs:todo" THEN {"K1"}
                 ELSE {}
       ELSE {}
  ELSE {}

\* accumulate: a violation first seen once a pattern is present goes to `post`
Acc(line, extra) ==
  LET k1 == kf \cup KfTags(line)
      v == Violated(line) \cup extra IN
  /\ kf' = k1
  /\ nt' = NtAfter(line)
  /\ viol' = IF k1 = {} THEN [viol EXCEPT !.pre = @ \cup v]
             ELSE [viol EXCEPT !.post = @ \cup (v \ viol.pre)]

---------------------------------------------------------------------------
Step(line, ev, re) ==
  /\ NodeStep(ev, re)
  /\ calls' = CallsAfter(line, calls)
  /\ Acc(line, {})
  /\ UNCHANGED runinfo

Line == Rec[l]

DoReset ==
  /\ Line.ev = "reset"
  /\ NodeReset(Line.cfg)
  /\ calls' = <<>>
  /\ runinfo' = [run |-> Line.run, invs |-> Line.invs, probeIds |-> {}, frozen |-> {}]
  /\ viol' = [pre |-> {}, post |-> {}]
  /\ kf' = {}
  /\ nt' = [direct |-> FALSE, h |-> [h \in Hashes |-> [open |-> FALSE, owed |-> 0]]]

DoHtlc ==
  /\ Line.ev = "htlc"
  /\ Step(Line, [t |-> "htlc", i |-> Line.i, rec |-> HtlcRec(Line)], Reaction(Line))

DoExec ==
  /\ Line.ev = "exec"
  /\ LET c == CallRec(Line)
         ok == ExecRes(c, Line.fault) = NormRes(c, Line.res) IN
     /\ NodeStep([t |-> "exec", c |-> c, fault |-> Line.fault], Reaction(Line))
     /\ calls' = [CallsAfter(Line, calls) EXCEPT ![Line.call] =
                     [@ EXCEPT !.st = IF c.kind = "pay" THEN "running" ELSE "executed", !.res = NormRes(c, Line.res)]]
     /\ Acc(Line, IF ok THEN {} ELSE {"TOOL"})
     /\ UNCHANGED runinfo

DoDeliver ==
  /\ Line.ev = "deliver"
  /\ NodeStep([t |-> "deliver", c |-> CallRec(Line), res |-> calls[Line.call].res], Reaction(Line))
  /\ calls' = [CallsAfter(Line, calls) EXCEPT ![Line.call].st = "delivered"]
  /\ Acc(Line, {})
  /\ UNCHANGED runinfo

DoPayPart ==
  /\ Line.ev = "paypart"
  /\ Step(Line, [t |-> "paypart", hash |-> Line.hash], Reaction(Line))
  /\ Line.part = Len(parts) + 1

DoPartDone ==
  /\ Line.ev = "partdone"
  /\ Step(Line, [t |-> "partdone", p |-> Line.part, how |-> Line.how, code |-> Line.code], Reaction(Line))

DoPayReturn ==
  /\ Line.ev = "payreturn"
  /\ NodeStep([t |-> "payreturn", hash |-> Line.hash, outcome |-> Line.outcome], Reaction(Line))
  /\ calls' = [CallsAfter(Line, calls) EXCEPT ![Line.call] = [@ EXCEPT !.st = "executed", !.res = [r |-> Line.outcome]]]
  /\ Acc(Line, \* E4 is the harness's obligation
          IF (Line.outcome = "complete" /\ ~Completed(Line.hash)) \/ (Line.outcome = "failed" /\ Live(Line.hash))
          THEN {"TOOL"} ELSE {})
  /\ UNCHANGED runinfo

DoTick ==
  /\ Line.ev = "tick"
  /\ Step(Line, [t |-> "tick"], Reaction(Line))

DoHeight ==
  /\ Line.ev = "height"
  /\ Step(Line, [t |-> "height", h |-> Line.h], Reaction(Line))

DoCrash ==
  /\ Line.ev = "crash"
  /\ NodeStep([t |-> "crash", lost |-> Range(Line.lost)], Reaction(Line))
  /\ calls' = <<>>
  /\ Acc(Line, {})
  /\ UNCHANGED runinfo

\* direct calls of the provider (Engine A-prov)
DoCall ==
  /\ Line.ev \in {"wpcall", "paycall"}
  /\ Step(Line, [t |-> "call", fn |-> IF Line.ev = "wpcall" THEN "wp" ELSE "pay", hash |-> Line.hash], Reaction(Line))

DoDrained ==
  /\ Line.ev = "drained"
  /\ NodeStep([t |-> "drained"], Reaction(Line))
  /\ calls' = CallsAfter(Line, calls)
  /\ LET fr == IF Has(Line, "frozen") THEN Range(Line.frozen) ELSE {} IN
     \* (an MPP timeout of 1_000_000 stands for "never": an incomplete set is then rightly held for ever)
     Acc(Line, IF AllAnswered(fr) \/ cfg.mpp >= 1000000 THEN {} ELSE IF fr = {} THEN {"C06"} ELSE {"C14"})
  /\ UNCHANGED runinfo

DoProbe ==
  /\ Line.ev = "probe"
  /\ NodeStep([t |-> "probe"], Reaction(Line))
  /\ calls' = calls
  /\ runinfo' = [runinfo EXCEPT !.probeIds = @ \cup Range(Line.ids)]
  /\ UNCHANGED <<viol, kf, nt>>

\* the design's own probe phase begins (replayed TLC schedules of instances with probe HTLCs): nothing happens
DoPhase ==
  /\ Line.ev = "phase"
  /\ NodeStep([t |-> "probe"], Reaction(Line))
  /\ UNCHANGED <<calls, runinfo, viol, kf, nt>>

\* a late or repeated block_added notification reached the plugin: the node's state does not change
DoStale ==
  /\ Line.ev = "stale"
  /\ NodeStep([t |-> "probe"], Reaction(Line))
  /\ calls' = CallsAfter(Line, calls)
  /\ Acc(Line, {})
  /\ UNCHANGED runinfo

\* end of run: C09 (some probe set was settled with the right preimage), report
DoEnd ==
  /\ Line.ev = "end"
  /\ LET c09 == runinfo.probeIds = {} \/ cfg.mpp = 0 \/   \* (a zero MPP timeout accepts no payment at all)
                \E i \in runinfo.probeIds : i \in DOMAIN htlc /\ htlc[i].resp.r = "resolve" /\ htlc[i].resp.key = htlc[i].hash
         extra == IF c09 THEN {} ELSE {"C09"}
         pre == IF kf = {} THEN viol.pre \cup extra ELSE viol.pre
         post == IF kf = {} THEN viol.post ELSE viol.post \cup (extra \ viol.pre)
     IN /\ (pre \cup post # {} => PrintT(<<"RUNVIOL", Line.run, pre, post, kf>>))
        /\ viol' = [pre |-> {}, post |-> {}]
        /\ kf' = {}
  /\ NodeStep([t |-> "end"], NoReaction)
  /\ UNCHANGED <<calls, runinfo, nt>>

Next ==
  /\ l <= N
  /\ l' = l + 1
  /\ \/ DoReset \/ DoHtlc \/ DoExec \/ DoDeliver \/ DoPayPart \/ DoPartDone \/ DoPayReturn
     \/ DoTick \/ DoHeight \/ DoCrash \/ DoCall \/ DoDrained \/ DoProbe \/ DoPhase \/ DoStale \/ DoEnd

Spec == Init /\ [][Next]_ovars

\* every line was consumed (a line no disjunct can explain stops the walk: tool error)
Accepted ==
  IF TLCGet("stats").diameter - 1 = N THEN TRUE
  ELSE PrintT(<<"STUCK at line", TLCGet("stats").diameter, "of", N>>) /\ FALSE
=============================================================================
