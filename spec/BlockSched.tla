------------------------------ MODULE BlockSched ------------------------------
(* spec -> impl: one schedule per explored edge of BlockWatcher *)
EXTENDS BlockWatcher, Json, TLC, Sequences
VARIABLE sched
SInit == Init /\ sched = <<[a |-> "h0", h |-> nodeH]>>
Step(a) == sched' = Append(sched, a)
SNext == \/ Start /\ Step([a |-> "start"])
         \/ ExecPoll(TRUE) /\ Step([a |-> "exec", ok |-> TRUE])
         \/ ExecPoll(FALSE) /\ Step([a |-> "exec", ok |-> FALSE])
         \/ DeliverPoll /\ Step([a |-> "deliver"])
         \/ Tick /\ Step([a |-> "tick"])
         \/ \E h \in Heights : Notify(h) /\ Step([a |-> "notify", h |-> h])
         \/ \E h \in Heights : NodeAdvance(h) /\ Step([a |-> "nodeh", h |-> h])
View == vars
CONSTANT EmitRate
EmitEdge == IF EmitRate = 1 \/ RandomElement(1..EmitRate) = 1 THEN PrintT(<<"SCHED", ToJson(sched')>>) ELSE TRUE
=============================================================================
