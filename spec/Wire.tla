--------------------------------- MODULE Wire ---------------------------------
(***************************************************************************)
(* C17: the plugin's wire protocol (cln_plugin/codec.rs, mod.rs).          *)
(*   Stream      the bytes lightningd sends: K JSON-RPC messages, each     *)
(*               followed by the separator \n\n (a message may contain     *)
(*               single \n and multi-byte characters, never \n\n)          *)
(*   Read(n)     the next n bytes arrive (ANY chunking, also inside the    *)
(*               separator and inside a multi-byte character)              *)
(*   Decode      FramedRead + MultiLineCodec: when the buffer holds a      *)
(*               separator, split the frame off, dispatch it (spawn)       *)
(*   Finish(k)   handler k completes and pushes its reply to the 4-slot    *)
(*               mpsc channel (blocks while it is full)                    *)
(*   Write       the driver pops a reply and writes it as one frame under  *)
(*               the output mutex                                          *)
(*   Log         a log notification is written as one frame under the same *)
(*               mutex, at any time                                        *)
(* Byte classes: 0 = body byte, 1 = lead byte of a 2-byte character,       *)
(* 2 = its continuation byte, 10 = \n.                                     *)
(***************************************************************************)
EXTENDS Integers, Sequences, FiniteSets

CONSTANTS Msgs,       \* Seq of message bodies (Seq of byte classes, no two adjacent 10s)
          MaxLogs

Sep == <<10, 10>>
RECURSIVE Concat(_)
Concat(ms) == IF ms = <<>> THEN <<>> ELSE ms[1] \o Sep \o Concat(Tail(ms))
Stream == Concat(Msgs)
K == Len(Msgs)

VARIABLES pos,      \* bytes delivered so far
          buf,      \* decoder buffer
          decoded,  \* bodies decoded so far, in order
          running,  \* handlers dispatched and not finished
          chan,     \* reply channel (capacity 4): Seq of message indices
          output,   \* frames written: Seq of [kind, k]
          logs
vars == <<pos, buf, decoded, running, chan, output, logs>>

Init == pos = 0 /\ buf = <<>> /\ decoded = <<>> /\ running = {} /\ chan = <<>> /\ output = <<>> /\ logs = 0

\* first index i with buf[i] = buf[i+1] = \n  (find_separator), 0 if none
SepAt(b) == IF \E i \in 1..Len(b) - 1 : b[i] = 10 /\ b[i + 1] = 10
            THEN CHOOSE i \in 1..Len(b) - 1 : b[i] = 10 /\ b[i + 1] = 10 /\ \A j \in 1..i - 1 : ~(b[j] = 10 /\ b[j + 1] = 10)
            ELSE 0

Read(n) == /\ n >= 1 /\ pos + n <= Len(Stream)
           /\ buf' = buf \o SubSeq(Stream, pos + 1, pos + n)
           /\ pos' = pos + n
           /\ UNCHANGED <<decoded, running, chan, output, logs>>

Decode == /\ SepAt(buf) # 0
          /\ LET i == SepAt(buf) IN
             /\ decoded' = Append(decoded, SubSeq(buf, 1, i - 1))
             /\ buf' = SubSeq(buf, i + 2, Len(buf))
             /\ running' = running \cup {Len(decoded) + 1}
          /\ UNCHANGED <<pos, chan, output, logs>>

Finish(k) == /\ k \in running /\ Len(chan) < 4
             /\ running' = running \ {k}
             /\ chan' = Append(chan, k)
             /\ UNCHANGED <<pos, buf, decoded, output, logs>>

Write == /\ chan # <<>>
         /\ output' = Append(output, [kind |-> "reply", k |-> Head(chan)])
         /\ chan' = Tail(chan)
         /\ UNCHANGED <<pos, buf, decoded, running, logs>>

Log == /\ logs < MaxLogs
       /\ logs' = logs + 1
       /\ output' = Append(output, [kind |-> "log", k |-> 0])
       /\ UNCHANGED <<pos, buf, decoded, running, chan>>

Next == \/ \E n \in 1..Len(Stream) : Read(n)
        \/ Decode \/ Write \/ Log
        \/ \E k \in 1..K : Finish(k)
Spec == Init /\ [][Next]_vars /\ WF_vars(Decode) /\ WF_vars(Write) /\ \A k \in 1..K : WF_vars(Finish(k))
                /\ WF_vars(\E n \in 1..Len(Stream) : Read(n))

(* C17 *)
\* each message is decoded exactly once and in order, however the stream is cut
DecodedPrefix == /\ Len(decoded) <= K
                 /\ \A i \in 1..Len(decoded) : decoded[i] = Msgs[i]
\* nothing is decoded before its separator has arrived completely
NotEarly == Len(Concat(decoded)) <= pos
\* one reply per dispatched request, carrying that request's index
Replies(k) == Cardinality({i \in 1..Len(output) : output[i].kind = "reply" /\ output[i].k = k})
OneReply == \A k \in 1..K : Replies(k) <= 1 /\ (Replies(k) = 1 => k <= Len(decoded) /\ k \notin running)
\* eventually everything is decoded and answered
AllDone == <>(Len(decoded) = K /\ \A k \in 1..K : Replies(k) = 1)
=============================================================================
