CONSTANTS
  Heights = {5, 6, 7, 9}
  Interval = 3
  MaxClock = 8
  MaxFail = 2
SPECIFICATION Spec
INVARIANTS KnownIsMax PollOnTime CaughtUp
PROPERTY Monotone
CHECK_DEADLOCK FALSE
