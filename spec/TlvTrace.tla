------------------------------ MODULE TlvTrace ------------------------------
(***************************************************************************)
(* Judges the REAL TLV codec (tlv.rs) on recorded calls (C18) and the      *)
(* get/remove pair that strips the payment metadata (C13).                 *)
(*  dec     from_bytes / try_from on arbitrary bytes: never a panic; on a  *)
(*          valid stream: the records of Tlv!Decode and a byte-exact       *)
(*          re-encoding.  On invalid input: records or error, no demand.   *)
(*  encdec  to_bytes then from_bytes on valid record lists                 *)
(*  tu64    truncated u64                                                  *)
(*  getrm   get(typ), remove(typ), to_bytes on a valid stream              *)
(***************************************************************************)
EXTENDS Tlv, Json, IOUtils, TLC, FiniteSets

Rec == ndJsonDeserialize(IOEnv.TRACE)
N == Len(Rec)

Norm(recs) == [i \in 1..Len(recs) |-> [typ |-> recs[i].typ, val |-> recs[i].val]]

OkLine(r) ==
  CASE r.kind = "dec" ->
         /\ r.res # "panic"
         /\ IF r.entry = "plain"
            THEN Valid(r.bytes) => r.res = "ok" /\ Norm(r.recs) = Decode(r.bytes) /\ r.reenc = r.bytes
            ELSE ValidPrefixed(r.bytes) => r.res = "ok" /\ Norm(r.recs) = DecodePrefixed(r.bytes)
                                           /\ r.reenc = Drop(r.bytes, ReadBS(r.bytes).w)
    [] r.kind = "encdec" ->
         /\ r.res = "ok" /\ r.same
         /\ r.enc = Encode(Norm(r.recs))
         /\ Norm(r.dec) = Norm(r.recs)
    [] r.kind = "tu64" ->
         /\ r.res # "panic"
         /\ IF Tu64(r.bytes).ok THEN r.res = "ok" /\ r.v8 = Tu64(r.bytes).v8 ELSE r.res = "err"
    [] r.kind = "getrm" ->
         /\ r.res = "ok"
         /\ LET recs == Decode(r.bytes)
                t == FromSmall(r.typ)
                hit == {i \in 1..Len(recs) : recs[i].typ = t} IN
            /\ r.found = (hit # {})
            /\ (hit # {} => r.val = recs[CHOOSE i \in hit : TRUE].val)
            /\ r.after = Encode(SelectSeq(recs, LAMBDA x : x.typ # t))
    [] OTHER -> FALSE

VARIABLES l, bad
Init == l = 1 /\ bad = 0
Next == /\ l <= N /\ l' = l + 1
        /\ IF OkLine(Rec[l]) THEN UNCHANGED bad
           ELSE PrintT(<<"TLVVIOL", l, Rec[l].kind, Rec[l].res>>) /\ bad' = bad + 1
Spec == Init /\ [][Next]_<<l, bad>>
Done == l = N + 1 => PrintT(<<"TLVDONE", N, bad>>)
Accepted == TLCGet("stats").diameter - 1 = N
=============================================================================
