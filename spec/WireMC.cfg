CONSTANTS
  Msgs <- MsgsM
  MaxLogs = 1
SPECIFICATION Spec
INVARIANTS DecodedPrefix NotEarly OneReply
PROPERTY AllDone
CHECK_DEADLOCK FALSE
