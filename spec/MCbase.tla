------------------------------ MODULE MCbase ------------------------------
(* Model-checking instances of Trampoline: catalogues and constants that a  *)
(* .cfg file cannot express (records, functions).                           *)
EXTENDS Trampoline

H(hash, inv, A, amt, total, exp, rel) ==
  [hash |-> hash, cls |-> "tramp", key |-> hash, inv |-> inv, A |-> A, amt |-> amt, total |-> total,
   exp |-> exp, rel |-> rel, ord |-> 0, fb |-> FALSE, st |-> "unsent", resp |-> NoResp]

\* policy: base fee 1, no proportional fee; amount 10 => a set needs 11
CfgA == [base |-> 1, ppm |-> 0, pdelta |-> 40, sdelta |-> 10, mpp |-> 2, h0 |-> 100]
InvAmtA == <<10, 10, 0>>   \* invoice 1, 2: 10 msat for h1 (two different invoices); 3: amountless h1

\* two parts that fund invoice 1 exactly
Cat2 == <<H("h1", 1, 10, 6, 11, 150, 50), H("h1", 1, 10, 5, 11, 160, 60)>>
\* plus one rejecting HTLC (conflicting invoice) / one with a low expiry
Cat3conf == Cat2 \o <<H("h1", 2, 10, 5, 11, 170, 70)>>
Cat3exp  == Cat2 \o <<H("h1", 1, 10, 5, 11, 130, 30)>>
Cat3more == Cat2 \o <<H("h1", 1, 10, 11, 11, 170, 70)>>
=============================================================================
