SPECIFICATION Spec
INVARIANT Done
POSTCONDITION Accepted
CHECK_DEADLOCK FALSE
