------------------------------ MODULE BlockTrace ------------------------------
(***************************************************************************)
(* Conformance + property check of the REAL BlockWatcher: every recorded   *)
(* step must be the corresponding action of BlockWatcher.tla, with the     *)
(* height the code reports (`known`) and the getinfo calls it issued equal *)
(* to the specification's; C20's predicates are evaluated in every state.  *)
(* A step the specification cannot take stops the walk (reported by the    *)
(* postcondition with the line number).                                    *)
(***************************************************************************)
EXTENDS BlockWatcher, Json, IOUtils, TLC, Sequences

Rec == ndJsonDeserialize(IOEnv.TRACE)
N == Len(Rec)
VARIABLES l, bad
tvars == <<vars, l, bad>>

TInit == /\ known = 0 /\ nodeH = 0 /\ told = {} /\ phase = "idle" /\ call = NoCall
         /\ sleepUntil = 0 /\ now = 0 /\ fails = 0 /\ lastPolled = -1 /\ l = 1 /\ bad = {}

Line == Rec[l]
\* what the code reported after the step must be what the specification says
Matches == /\ (phase' \in {"sleep", "poll"} => Line.known = known')
           /\ Line.issued = (IF call'.st = "issued" /\ call.st # "issued" THEN 1 ELSE 0)
           /\ Line.started = (CASE phase' = "idle" -> "no" [] phase' = "startup" -> "pending"
                                [] phase' = "failed" -> "err" [] OTHER -> "ok")

TNext ==
  /\ l <= N /\ l' = l + 1
  /\ \/ /\ Line.ev = "reset"
        /\ known' = 0 /\ nodeH' = Line.h0 /\ told' = {} /\ phase' = "idle" /\ call' = NoCall
        /\ sleepUntil' = 0 /\ now' = 0 /\ fails' = 0 /\ lastPolled' = -1
        /\ UNCHANGED bad
     \/ /\ Line.ev = "start" /\ Start /\ Matches /\ UNCHANGED bad
     \/ /\ Line.ev = "exec" /\ ExecPoll(Line.ok) /\ Matches /\ UNCHANGED bad
        /\ Line.res = call'.res
     \/ /\ Line.ev = "deliver" /\ DeliverPoll /\ Matches /\ UNCHANGED bad
     \/ /\ Line.ev = "tick" /\ Tick /\ Matches /\ UNCHANGED bad
     \/ /\ Line.ev = "notify" /\ Notify(Line.h) /\ Matches /\ UNCHANGED bad
     \/ /\ Line.ev = "nodeh" /\ NodeAdvance(Line.h) /\ Matches /\ UNCHANGED bad
     \/ /\ Line.ev = "end" /\ UNCHANGED <<vars, bad>>
TSpec == TInit /\ [][TNext]_tvars

\* C20 "never decreases", within a run (a reset line starts a new run)
MonotoneT == [][Line.ev # "reset" => known' >= known]_tvars

Accepted ==
  IF TLCGet("stats").diameter - 1 = N THEN TRUE
  ELSE PrintT(<<"BLKSTUCK", TLCGet("stats").diameter, N>>) /\ FALSE
=============================================================================
