CONSTANTS
  Hashes <- HashesM
  Cfg <- CfgM
  Cat <- CatM
  InvAmt <- InvAmtM
  MaxParts = 1
  MaxPays = 2
  MaxCrash = 0
  MaxClock = 1000
  MaxW = 0
  MaxR = 0
  HeightSet = {}
  Direct = 0
  Probes <- NoProbes
  Pinned = {}
SPECIFICATION LSpec
PROPERTY Answered
CHECK_DEADLOCK FALSE
