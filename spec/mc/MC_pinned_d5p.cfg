CONSTANTS
  Hashes <- HashesM
  Cfg <- CfgM
  Cat <- CatM
  InvAmt <- InvAmtM
  MaxParts = 2
  MaxPays = 1
  MaxCrash = 0
  MaxClock = 0
  MaxW = 0
  MaxR = 0
  HeightSet <- HeightsM
  Direct = 1
  Probes <- ProbesM
  Pinned <- PinnedM
  EmitRate = 1
  FocusRate = 0
INIT SInit
NEXT SNext
VIEW View
CHECK_DEADLOCK FALSE
INVARIANTS TypeOK C09design
PROPERTIES PC15 PC16
