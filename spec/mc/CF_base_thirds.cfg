CONSTANTS
  Hashes <- HashesM
  Cfg <- CfgM
  Cat <- CatM
  InvAmt <- InvAmtM
  MaxParts = 60
  MaxPays = 60
  MaxCrash = 60
  MaxClock = 1000000
  MaxW = 60
  MaxR = 60
  HeightSet <- AnyHeight
  Direct = 60
  Probes <- ProbesM
  Pinned <- PinnedM
  EmitRate = 1
  FocusRate = 0
SPECIFICATION CSpec
POSTCONDITION CAccepted
CHECK_DEADLOCK FALSE
