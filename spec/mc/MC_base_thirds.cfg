CONSTANTS
  Hashes <- HashesM
  Cfg <- CfgM
  Cat <- CatM
  InvAmt <- InvAmtM
  MaxParts = 1
  MaxPays = 1
  MaxCrash = 0
  MaxClock = 4
  MaxW = 0
  MaxR = 0
  HeightSet <- HeightsM
  Direct = 0
  Probes <- ProbesM
  Pinned <- PinnedM
  EmitRate = 1
  FocusRate = 0
INIT SInit
NEXT SNext
VIEW View
CHECK_DEADLOCK FALSE
INVARIANTS TypeOK C09design
PROPERTIES PC01 PC02 PC03 PC04 PC05 PC06 PC07 PC08 PC11 PC12 PC13 PC15 PC16 PAudit
