CONSTANTS
  Heights = {0}
  Interval = 3
  MaxClock = 1000000
  MaxFail = 1000000
SPECIFICATION TSpec
INVARIANTS KnownIsMax PollOnTime CaughtUp
PROPERTY MonotoneT
POSTCONDITION Accepted
CHECK_DEADLOCK FALSE
