CONSTANTS
  Cfg <- CfgA
  Cat <- Cat2
  InvAmt <- InvAmtA
  MaxParts = 1
  MaxPays = 1
  MaxCrash = 0
  MaxClock = 3
  MaxW = 0
  MaxR = 0
  HeightSet = {}
  Pinned = {}
INIT Init
NEXT Next
INVARIANTS TypeOK
PROPERTIES PC01 PC02 PC03 PC04 PC05 PC06 PC07 PC08 PC11 PC12 PC13
CHECK_DEADLOCK FALSE
