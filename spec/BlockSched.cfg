CONSTANTS
  Heights = {5, 6, 7, 9}
  Interval = 3
  MaxClock = 8
  MaxFail = 2
  EmitRate = 20
INIT SInit
NEXT SNext
VIEW View
ACTION_CONSTRAINT EmitEdge
CHECK_DEADLOCK FALSE
