CONSTANTS
  Interval = 3
SPECIFICATION Spec
POSTCONDITION Accepted
CHECK_DEADLOCK FALSE
