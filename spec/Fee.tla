--------------------------------- MODULE Fee ---------------------------------
(***************************************************************************)
(* C12: the fee test.  Exact is the property's predicate.  Impl is a       *)
(* step-by-step transcription of TrampolineRoutingPolicy::fee_sufficient   *)
(* (messages.rs) over machine words of M values (M = 2^64 in the code):    *)
(* early exit, checked_mul, / Div, checked_add, final checked add.         *)
(* Named deviation MulOverflowReject (known finding K4): when amount*ppm   *)
(* does not fit the word the code answers FALSE although the exact         *)
(* right-hand side may fit.                                                *)
(* TLC enumerates ALL tuples at a reduced word width and checks            *)
(*   Impl = Exact  outside the K4 region,  Impl = FALSE inside it.         *)
(* The same definitions over BigNat (FeeTrace.tla) judge the real function *)
(* at 64 bits.                                                             *)
(***************************************************************************)
EXTENDS Integers

CONSTANTS M,        \* number of values of an amount word (2^64 in the code)
          P,        \* number of values of a policy word (2^32 in the code)
          Div,      \* 10^6 in the code
          PreFix    \* TRUE: model the pinned code (final add unchecked: wraps or panics) - defect D3

Exact(total, amount, base, ppm) ==
  LET rhs == amount + base + ((amount * ppm) \div Div) IN rhs < M /\ total >= rhs

B2S(b) == IF b THEN "true" ELSE "false"

\* "true" | "false" | "panic"
Impl(total, amount, base, ppm) ==
  IF total < amount THEN "false"
  ELSE LET prod == amount * ppm IN
       IF prod >= M THEN "false"                      \* checked_mul -> None -> false (K4)
       ELSE LET fee == base + (prod \div Div) IN
            IF fee >= M THEN "false"                  \* checked_add -> None -> false
            ELSE LET rhs == amount + fee IN
                 IF rhs >= M THEN (IF PreFix THEN "panic" ELSE "false")
                 ELSE B2S(total >= rhs)

MulOverflowReject(amount, ppm) == amount * ppm >= M

VARIABLE v
Init == v \in (0..M-1) \X (0..M-1) \X (0..P-1) \X (0..P-1)
Next == UNCHANGED v
Spec == Init /\ [][Next]_v

Agree ==
  LET total == v[1] amount == v[2] base == v[3] ppm == v[4] IN
  IF MulOverflowReject(amount, ppm)
  THEN Impl(total, amount, base, ppm) = "false"
  ELSE Impl(total, amount, base, ppm) = B2S(Exact(total, amount, base, ppm))

\* the K4 region is not empty at this width (vacuity guard) and really deviates
K4Witness == \E t \in 0..M-1, a \in 0..M-1, b \in 0..P-1, p \in 0..P-1 :
               MulOverflowReject(a, p) /\ Exact(t, a, b, p)
ASSUME K4Witness
=============================================================================
