-------------------------------- MODULE Config --------------------------------
(***************************************************************************)
(* C19: what the plugin must do with its startup options (main.rs).        *)
(* An integer option value is [neg, d]: sign and BigNat magnitude (the     *)
(* node passes 64-bit signed integers).  Expected(o) is either "refuse" or *)
(* the parameters the plugin has to run with.                              *)
(***************************************************************************)
EXTENDS BigNat

InRange(v, maxd) == ~v.neg /\ Leq(v.d, maxd)
U63MAX == <<5807, 5477, 368, 3372, 922>>     \* 2^63 - 1

Refuse(o) ==
  \/ ~InRange(o.sdelta, U16MAX)            \* trampoline-cltv-delta: u16
  \/ ~InRange(o.pdelta, U16MAX)            \* trampoline-policy-cltv-delta: u16
  \/ ~Gt(o.pdelta.d, o.sdelta.d)           \* policy delta must be greater than the safety delta
  \/ ~InRange(o.base, U32MAX)              \* trampoline-policy-fee-base: u32
  \/ ~InRange(o.ppm, U32MAX)               \* trampoline-policy-fee-per-satoshi: u32
  \/ o.mpp.neg                             \* trampoline-mpp-timeout: u64 seconds
  \/ o.paytimeout.neg                      \* trampoline-payment-timeout: u64 seconds

\* the parameters a running plugin enforces
Params(o) == [base |-> o.base.d, ppm |-> o.ppm.d, pdelta |-> o.pdelta.d, sdelta |-> o.sdelta.d, mpp |-> o.mpp.d,
              retry |-> IF Gt(o.paytimeout.d, U16MAX) THEN U16MAX ELSE o.paytimeout.d,
              selfhints |-> ~o.nohints, xpay |-> o.xpay]

\* failure message of the advertised policy
FeeBytesBN(o) == <<32, 26>> \o BytesBE(o.base.d, 4) \o BytesBE(o.ppm.d, 4) \o BytesBE(o.pdelta.d, 2)
=============================================================================
