------------------------------- MODULE Node -------------------------------
(***************************************************************************)
(* lightningd as the plugin sees it: the GROUND TRUTH the properties talk  *)
(* about.  Outgoing sendpay parts, pay commands, the datastore with        *)
(* generations and write modes (lightning-datastore(7)), wall clock, chain *)
(* height, and the incoming HTLCs with the answers they were given.        *)
(*                                                                         *)
(* One operator, NodeStep(ev, re), is the transition                       *)
(* relation of the node for one environment event `ev` together with the   *)
(* plugin's complete reaction to it (the answers it gave, the RPC calls it *)
(* issued).  Trampoline.tla computes the reaction from the plugin model;   *)
(* Observer.tla reads it from a trace recorded from the real code.  Both   *)
(* use the same NodeStep, and Props.tla judges the resulting step.         *)
(*                                                                         *)
(* Assumptions E1-E9 of DESIGN.md section 4 are the guards below.          *)
(***************************************************************************)
EXTENDS Integers, FiniteSets, Sequences, TLC

VARIABLES
  cfg,     \* [base, ppm, pdelta, sdelta, mpp] plugin configuration of this run
  htlc,    \* [HtlcId -> [hash, cls, key, inv, A, amt, total, exp, rel, ord, fb, st, resp]]
  parts,   \* Seq([hash, st]) : outgoing sendpay parts; index = part id
  pay,     \* [Hash -> [iss, run]] pay commands issued-not-executed / running at the node
  ds,      \* [Hash -> [st, a, t, gen, key]] state record of the datastore
  att,     \* [Hash -> [AttemptId -> [st: {"open","failed","ok"}, gen]]] attempt records
  now,     \* wall clock = monotonic clock, in ticks (seconds)
  height,  \* chain height known to the plugin
  panics,  \* number of panics observed in plugin code
  iss,     \* RPC calls issued by the plugin in the LAST step (set of call records)
  rets,    \* values returned to a direct caller of wait_payment / pay in the LAST step
  last,    \* the environment event of the LAST step (history; never read by a guard)
  obs      \* observer bookkeeping per hash, see ObsInit
nodeVars == <<cfg, htlc, parts, pay, ds, att, now, height, panics, iss, rets, last, obs>>
\* what distinguishes states: everything but the two history variables
nodeView == <<cfg, htlc, parts, pay, ds, att, now, height, panics, obs>>

CONSTANT Hashes   \* names of the payment hashes in play ("h1", "h2", ...)

NoResp == [r |-> "none", key |-> "", code |-> ""]
DsAbsent == [st |-> "absent", a |-> 0, t |-> 0, gen |-> 0, key |-> ""]

Hi(a, b) == IF a >= b THEN a ELSE b
Lo(a, b) == IF a <= b THEN a ELSE b

---------------------------------------------------------------------------
(* Ground-truth abbreviations *)

PartIds == 1..Len(parts)
LiveIn(ps, h) == \E p \in 1..Len(ps) : ps[p].hash = h /\ ps[p].st \in {"pending", "complete"}
Live(h)      == \E p \in PartIds : parts[p].hash = h /\ parts[p].st \in {"pending", "complete"}
Completed(h) == \E p \in PartIds : parts[p].hash = h /\ parts[p].st = "complete"
PendingParts(h)  == {p \in PartIds : parts[p].hash = h /\ parts[p].st = "pending"}
CompleteParts(h) == {p \in PartIds : parts[p].hash = h /\ parts[p].st = "complete"}
PayInFlight(h) == pay[h].iss > 0 \/ pay[h].run > 0

FeeOK(total, a) == total >= a + cfg.base + ((a * cfg.ppm) \div 1000000)

\* trampoline-class HTLCs the plugin is holding unanswered for hash h (in hf)
HeldIn(hf, h) == {i \in DOMAIN hf : hf[i].st = "held" /\ hf[i].cls = "tramp" /\ hf[i].key = h}
HeldT(h) == HeldIn(htlc, h)

RECURSIVE SumAmt(_, _)
SumAmt(hf, S) == IF S = {} THEN 0
                 ELSE LET i == CHOOSE x \in S : TRUE IN hf[i].amt + SumAmt(hf, S \ {i})
RECURSIVE MinExp(_, _)
MinExp(hf, S) == IF S = {} THEN 1000000
                 ELSE LET i == CHOOSE x \in S : TRUE IN Lo(hf[i].exp, MinExp(hf, S \ {i}))

\* the member of S that arrived first
First(hf, S) == CHOOSE i \in S : \A j \in S : hf[i].ord <= hf[j].ord

---------------------------------------------------------------------------
(* E1: datastore semantics.  w = [key, a, mode, gen, val]; gen = -1: no     *)
(* generation argument.  Result: [ok, gen] and whether the write applies.   *)

DsPresent(h, w) == IF w.key = "state" THEN ds[h].st # "absent" ELSE w.a \in DOMAIN att[h]
DsCurGen(h, w)  == IF w.key = "state" THEN ds[h].gen ELSE IF w.a \in DOMAIN att[h] THEN att[h][w.a].gen ELSE 0

DsVerdict(h, w) ==
  LET present == DsPresent(h, w) IN
  IF w.mode = "mc" /\ present THEN [ok |-> FALSE, gen |-> 0]
  ELSE IF w.mode \in {"mr", "ma"} /\ ~present THEN [ok |-> FALSE, gen |-> 0]
  ELSE IF w.gen # -1 /\ ~present THEN [ok |-> FALSE, gen |-> 0]
  ELSE IF w.gen # -1 /\ w.gen # DsCurGen(h, w) THEN [ok |-> FALSE, gen |-> 0]
  ELSE [ok |-> TRUE, gen |-> IF present THEN DsCurGen(h, w) + 1 ELSE 0]

\* the write is applied iff the verdict is ok and the fault is not "reject"
DsApplied(h, w, fault) == DsVerdict(h, w).ok /\ fault # "reject"

DsAfter(h, w, fault) ==
  IF w.key = "state" /\ DsApplied(h, w, fault)
  THEN LET \* the append modes glue the new text to the old one: two JSON documents in a row do not parse
           st1 == IF w.mode \in {"coa", "ma"} /\ DsPresent(h, w) THEN "unparsable" ELSE w.val.st IN
       [ds EXCEPT ![h] = [st |-> st1,
                          a  |-> IF st1 = "pending" THEN w.val.a ELSE 0,
                          t  |-> IF st1 = "pending" THEN w.val.t ELSE 0,
                          gen |-> DsVerdict(h, w).gen,
                          key |-> IF st1 = "succeeded" THEN w.val.key ELSE ""]]
  ELSE ds

AttAfter(h, w, fault) ==
  IF w.key = "att" /\ DsApplied(h, w, fault)
  THEN [att EXCEPT ![h] = [x \in (DOMAIN @) \cup {w.a} |-> IF x = w.a THEN [st |-> w.val.st, gen |-> DsVerdict(h, w).gen] ELSE @[x]]]
  ELSE att

\* abstract result of executing call c under `fault` (compared with the trace)
ExecRes(c, fault) ==
  CASE c.kind = "listds" ->
         IF fault = "error" THEN [r |-> "error"]
         ELSE IF c.key # "state" THEN [r |-> "ok", st |-> "absent", gen |-> 0]
         ELSE IF ds[c.hash].st = "absent" THEN [r |-> "ok", st |-> "absent", gen |-> 0]
         ELSE IF ds[c.hash].st = "pending"
              THEN [r |-> "ok", st |-> "pending", gen |-> ds[c.hash].gen, a |-> ds[c.hash].a, t |-> ds[c.hash].t]
         ELSE IF ds[c.hash].st = "succeeded"
              THEN [r |-> "ok", st |-> "succeeded", gen |-> ds[c.hash].gen, key |-> ds[c.hash].key]
         ELSE [r |-> "ok", st |-> ds[c.hash].st, gen |-> ds[c.hash].gen]
    [] c.kind = "ds" /\ c.key = "other" ->          \* a key the model does not know: the write is the node's business
         [r |-> "ok", applied |-> TRUE, gen |-> 0]
    [] c.kind = "ds" /\ c.key # "other" ->
         LET v == DsVerdict(c.hash, c) IN
         IF ~v.ok THEN [r |-> "refused", applied |-> FALSE]
         ELSE IF fault = "reject" THEN [r |-> "fault", applied |-> FALSE]
         ELSE IF fault = "lost" THEN [r |-> "fault", applied |-> TRUE, gen |-> v.gen]
         ELSE [r |-> "ok", applied |-> TRUE, gen |-> v.gen]
    [] c.kind = "lists" ->
         IF fault = "error" THEN [r |-> "error"]
         ELSE [r |-> "ok", parts |-> IF c.status = "complete" THEN CompleteParts(c.hash)
                                     ELSE IF c.status = "pending" THEN PendingParts(c.hash)
                                     ELSE {p \in PartIds : parts[p].hash = c.hash}]
    [] c.kind = "wait" ->
         IF fault # "none" THEN [r |-> "error"]
         ELSE IF c.part = 0 THEN [r |-> "code", code |-> 208]
         ELSE IF parts[c.part].st = "complete" THEN [r |-> "complete"]
         ELSE IF parts[c.part].st = "pending" THEN [r |-> "code", code |-> 200]   \* the requested timeout has passed
         ELSE [r |-> "code", code |-> parts[c.part].code]
    [] c.kind = "pay" -> [r |-> "running"]
    [] c.kind = "getinfo" -> IF fault = "error" THEN [r |-> "error"] ELSE [r |-> "ok", height |-> height]
    [] OTHER -> [r |-> "unknown"]

\* E6: waitsendpay answers only once the part is no longer pending - or, if the caller asked for a timeout
\* (c.timeout # -1), once that many seconds have passed since the call was issued (c.at): code 200
ExecEnabled(c) == c.kind = "wait" /\ c.part # 0 =>
                    \/ parts[c.part].st # "pending"
                    \/ (c.timeout # -1 /\ now >= c.at + c.timeout)

---------------------------------------------------------------------------
(* Observer bookkeeping (per hash), used by Props:                          *)
(*  bound     max route delay allowed, fixed when the attempt is initiated  *)
(*            (issue of the write "state := Pending"); -1 = unset           *)
(*  doomed    a rejection was triggered while the set was not fully funded  *)
(*  idleSince since when the plugin has had nothing to do for h but wait    *)
(*            (HTLCs held, nothing live, no call outstanding); -1 = not idle*)
(*  out       number of RPC calls of the plugin for h still outstanding     *)
(*  readAt    when the stored state was last delivered as absent/free; -1   *)
(*  paid      a pay was issued since readAt was set                         *)
(*  rej       some HTLC of the current set triggered a policy rejection     *)
(*  firstBad  ids of HTLCs that opened a set and fail the policy tests      *)

ObsInit == [h \in Hashes |-> [bound |-> -1, doomed |-> FALSE, idleSince |-> -1, out |-> 0,
                              readAt |-> -1, paid |-> FALSE, rej |-> FALSE]]

---------------------------------------------------------------------------
NodeInit(c) ==
  /\ cfg = c
  /\ parts = <<>>
  /\ pay = [h \in Hashes |-> [iss |-> 0, run |-> 0]]
  /\ ds = [h \in Hashes |-> DsAbsent]
  /\ att = [h \in Hashes |-> <<>>]
  /\ now = 0
  /\ height = c.h0
  /\ panics = 0
  /\ iss = {}
  /\ rets = {}
  /\ last = [t |-> "init"]
  /\ obs = ObsInit

\* the same as a next-state assignment (a new run starts in a recorded trace)
NodeResetH(c, hf) ==
  /\ cfg' = c
  /\ parts' = <<>>
  /\ pay' = [h \in Hashes |-> [iss |-> 0, run |-> 0]]
  /\ ds' = [h \in Hashes |-> DsAbsent]
  /\ att' = [h \in Hashes |-> <<>>]
  /\ now' = 0
  /\ height' = c.h0
  /\ panics' = 0
  /\ iss' = {}
  /\ rets' = {}
  /\ last' = [t |-> "reset"]
  /\ obs' = ObsInit
  /\ htlc' = hf
NodeReset(c) == NodeResetH(c, <<>>)

\* Does HTLC record r (arriving) trigger a rejection of the set it joins?
\* conflicting invoice/amount, expiry too low, declared total too low.
Rejects(r, hf) ==
  LET S == HeldIn(hf, r.key) IN
  \/ r.rel < cfg.pdelta
  \/ ~FeeOK(IF r.total # 0 THEN r.total ELSE r.amt, r.A)
  \/ (S # {} /\ (hf[First(hf, S)].inv # r.inv \/ hf[First(hf, S)].A # r.A))

\* r opens a set and fails the policy tests on its own (C12, first-HTLC clause)
FirstBad(r) == /\ r.cls = "tramp" /\ HeldT(r.key) = {}
               /\ (r.rel < cfg.pdelta \/ ~FeeOK(IF r.total # 0 THEN r.total ELSE r.amt, r.A))

\* amount the set held for h has to deliver (that of its first member)
SetA(hf, h) == hf[First(hf, HeldIn(hf, h))].A

\* the set held for h (before this step) already covers amount + fee
FundedBefore(h) == HeldT(h) # {} /\ FeeOK(SumAmt(htlc, HeldT(h)), SetA(htlc, h))

---------------------------------------------------------------------------
(* The node's transition for event ev with the plugin's reaction.          *)
(* re = the plugin's reaction:                                             *)
(*   re.answers : [subset of HtlcId -> [r, key, code]]                      *)
(*   re.issues  : set of call records issued in this step                   *)
(*   re.drops   : set of [c, cst] : calls whose future the plugin dropped   *)
(*   re.npanic  : panics in this step                                       *)
(*   re.rets    : set of [fn, hash, r, key] returned to a direct caller     *)
NoReaction == [answers |-> <<>>, issues |-> {}, drops |-> {}, npanic |-> 0, rets |-> {}]

HtlcAfterEvent(ev) ==
  IF ev.t = "htlc"
  THEN [i \in (DOMAIN htlc) \cup {ev.i} |->
          IF i = ev.i THEN [ev.rec EXCEPT !.st = "held", !.resp = NoResp,
                                          !.ord = Cardinality({j \in DOMAIN htlc : htlc[j].st # "unsent"}) + 1,
                                          !.fb = FirstBad(ev.rec)]
          ELSE htlc[i]]
  ELSE IF ev.t = "crash"
  THEN [i \in DOMAIN htlc |->
          IF htlc[i].st = "held" \/ i \in ev.lost
          THEN [htlc[i] EXCEPT !.st = "unsent", !.resp = NoResp] ELSE htlc[i]]
  ELSE IF ev.t = "probe"
  THEN htlc   \* probe HTLCs are announced by their own htlc events
  ELSE htlc

ObsAfter(ev, hpost, re) ==
  [h \in Hashes |->
    LET o == obs[h]
        crash == ev.t = "crash"
        \* calls of this hash: issued now, finished now
        issues == re.issues
        nIss == Cardinality({c \in issues : c.hash = h})
        fin  == (IF ev.t = "deliver" /\ ev.c.hash = h THEN 1 ELSE 0)
                + Cardinality({d \in re.drops : d.c.hash = h})
        out1 == IF crash THEN 0 ELSE Hi(0, o.out + nIss - fin)
        heldPost == HeldIn(hpost, h)
        \* rejection while not fully funded (C04 second sentence, C07 rejection clause)
        arr == ev.t = "htlc" /\ ev.rec.cls = "tramp" /\ ev.rec.key = h
        doom1 == IF crash \/ heldPost = {} THEN FALSE
                 ELSE IF arr /\ ~FundedBefore(h) /\ Rejects(ev.rec, htlc) THEN TRUE
                 ELSE o.doomed
        w1 == {c \in issues : c.hash = h /\ c.kind = "ds" /\ c.key = "state" /\ c.val.st = "pending"}
        bound1 == IF w1 # {} /\ heldPost # {}
                  THEN Hi(0, MinExp(hpost, heldPost) - height - cfg.sdelta)
                  ELSE IF crash THEN -1 ELSE o.bound
        readNow == ev.t = "deliver" /\ ev.c.kind = "listds" /\ ev.c.hash = h /\ ev.c.key = "state"
                   /\ ev.res.r = "ok" /\ ev.res.st \in {"absent", "free"}
        rej1 == IF crash \/ heldPost = {} THEN FALSE
                ELSE IF arr /\ Rejects(ev.rec, htlc) THEN TRUE ELSE o.rej
        readAt1 == IF crash \/ heldPost = {} THEN -1 ELSE IF readNow THEN now ELSE
                   IF ev.t = "deliver" /\ ev.c.kind = "listds" /\ ev.c.hash = h THEN -1 ELSE o.readAt
        paid1 == IF readNow \/ crash THEN FALSE
                 ELSE IF \E c \in issues : c.kind = "pay" /\ c.hash = h THEN TRUE ELSE o.paid
        idle == heldPost # {} /\ out1 = 0 /\ ~LiveIn(parts', h) /\ pay'[h].iss = 0 /\ pay'[h].run = 0
        nowPost == IF ev.t = "tick" THEN now + 1 ELSE now
        idle1 == IF ~idle THEN -1 ELSE IF o.idleSince = -1 THEN nowPost ELSE o.idleSince
    IN [bound |-> bound1, doomed |-> doom1, idleSince |-> idle1, out |-> out1,
        readAt |-> readAt1, paid |-> paid1, rej |-> rej1]]

NodeStep(ev, re) ==
  LET answers == re.answers
      issues == re.issues
      hmid == HtlcAfterEvent(ev)
      hpost == [i \in DOMAIN hmid |->
                  IF i \in DOMAIN answers
                  THEN [hmid[i] EXCEPT !.st = "answered", !.resp = answers[i]]
                  ELSE hmid[i]]
  IN
  /\ cfg' = cfg
  /\ htlc' = hpost
  /\ parts' = CASE ev.t = "paypart"  -> Append(parts, [hash |-> ev.hash, st |-> "pending", code |-> 0])
                [] ev.t = "partdone" -> [parts EXCEPT ![ev.p] = [@ EXCEPT !.st = ev.how, !.code = ev.code]]
                [] OTHER -> parts
  /\ pay' = [h \in Hashes |->
               LET p0 == IF ev.t = "crash" THEN [iss |-> 0, run |-> 0]
                         ELSE IF ev.t = "exec" /\ ev.c.kind = "pay" /\ ev.c.hash = h
                              THEN [iss |-> Hi(0, pay[h].iss - 1), run |-> pay[h].run + 1]
                         ELSE IF ev.t = "payreturn" /\ ev.hash = h
                              THEN [pay[h] EXCEPT !.run = Hi(0, @ - 1)]
                         ELSE pay[h]
                   dIss == Cardinality({d \in re.drops : d.c.kind = "pay" /\ d.c.hash = h /\ d.cst = "issued"})
               IN [p0 EXCEPT !.iss = Hi(0, @ - dIss) + Cardinality({c \in issues : c.kind = "pay" /\ c.hash = h})]]
  /\ ds'  = IF ev.t = "exec" /\ ev.c.kind = "ds" /\ ev.c.hash \in Hashes THEN DsAfter(ev.c.hash, ev.c, ev.fault) ELSE ds
  /\ att' = IF ev.t = "exec" /\ ev.c.kind = "ds" /\ ev.c.hash \in Hashes THEN AttAfter(ev.c.hash, ev.c, ev.fault) ELSE att
  /\ now' = IF ev.t = "tick" THEN now + 1 ELSE now
  /\ height' = IF ev.t = "height" THEN ev.h ELSE height
  /\ panics' = panics + re.npanic
  /\ iss' = issues
  /\ rets' = re.rets
  /\ last' = ev
  /\ obs' = ObsAfter(ev, hpost, re)

=============================================================================
