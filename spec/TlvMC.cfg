CONSTANTS
  Alphabet = {0, 1, 2, 16, 252, 253, 254, 255}
  MaxLen = 5
SPECIFICATION Spec
INVARIANT RoundTrip
CHECK_DEADLOCK FALSE
