------------------------------ MODULE WireTrace ------------------------------
(***************************************************************************)
(* Black-box judge of the REAL plugin driver (C17) on recorded runs.       *)
(* reset    the whole byte stream lightningd will send (handshake of `hs`  *)
(*          bytes, then the messages) and the messages' kind / id / tag    *)
(* chunk    the next n bytes were written to the plugin's stdin            *)
(* finish   the handler of the request with this tag was allowed to return *)
(* out      after each step: handler invocations observed (in order) and   *)
(*          the complete frames the plugin wrote                           *)
(* Expected, from the stream alone: the messages whose separator has been  *)
(* delivered completely - each dispatched exactly once, in order, no other;*)
(* one reply per finished request carrying that request's id and its own   *)
(* result; every frame a complete JSON document.                           *)
(***************************************************************************)
EXTENDS Integers, Sequences, FiniteSets, Json, IOUtils, TLC

Rec == ndJsonDeserialize(IOEnv.TRACE)
N == Len(Rec)

\* end offsets (index of the second \n) of the frames of byte string s, scanning like a decoder
RECURSIVE Ends(_, _, _)
Ends(s, i, acc) == IF i >= Len(s) THEN acc
                   ELSE IF s[i] = 10 /\ s[i + 1] = 10 THEN Ends(s, i + 2, Append(acc, i + 1))
                   ELSE Ends(s, i + 1, acc)

VARIABLES l, ends, msgs, pos, ninv, replied, finished, hsdone, viol, invSeq
vars == <<l, ends, msgs, pos, ninv, replied, finished, hsdone, viol, invSeq>>
Init == l = 1 /\ ends = <<>> /\ msgs = <<>> /\ pos = 0 /\ ninv = 0 /\ replied = {} /\ finished = {} /\ hsdone = 0 /\ viol = {} /\ invSeq = <<>>

Line == Rec[l]
Items(line, kind) == {k \in 1..Len(line.out) : line.out[k].o = kind}
\* messages (index into msgs) that produce a handler invocation
Dispatching == {k \in 1..Len(msgs) : msgs[k].kind \in {"hook", "notif"}}
\* number of frames of the stream completely delivered at position p
Complete(p) == Cardinality({k \in 1..Len(ends) : ends[k] <= p})
\* the invocations expected once `c` frames are complete (2 handshake frames first)
ExpectedInv(c) == LET m == IF c <= 2 THEN 0 ELSE c - 2 IN {k \in Dispatching : k <= m}
TagOf(id) == LET S == {k \in 1..Len(msgs) : msgs[k].kind = "hook" /\ ToJson(msgs[k].id) = id} IN
             IF S = {} THEN -1 ELSE msgs[CHOOSE k \in S : TRUE].tag

Next ==
  /\ l <= N /\ l' = l + 1
  /\ IF Line.ev = "reset"
     THEN /\ ends' = Ends(Line.stream, 1, <<>>) /\ msgs' = Line.msgs /\ pos' = 0 /\ ninv' = 0
          /\ replied' = {} /\ finished' = {} /\ hsdone' = 0 /\ viol' = {} /\ invSeq' = <<>>
     ELSE IF Line.ev = "end"
     THEN /\ LET v == viol \cup (IF Line.leftover # 0 THEN {"PartialFrame"} ELSE {})
                            \cup (IF Line.closed THEN {"PluginStoppedReading"} ELSE {})
                            \cup (IF finished \subseteq replied THEN {} ELSE {"MissingReply"})
                            \cup (IF Complete(pos) = Len(ends) /\ pos = ends[Len(ends)] => ninv = Cardinality(Dispatching)
                                  THEN {} ELSE {"MissingDispatch"})
             IN v # {} => PrintT(<<"WIREVIOL", Line.run, v>>)
          /\ UNCHANGED <<ends, msgs, pos, ninv, replied, finished, hsdone, viol, invSeq>>
     ELSE LET p1 == IF Line.ev = "chunk" THEN Line.pos ELSE pos
              inv == Items(Line, "invoked")
              frames == Items(Line, "frame")
              \* invocations observed in this step, as message indices in order
              obsTags == [k \in 1..Cardinality(inv) |-> Line.out[CHOOSE j \in inv : Cardinality({i \in inv : i < j}) = k - 1].tag]
              inv1 == invSeq \o obsTags
              \* everything that must have been dispatched once the frames complete at p1 are in: in stream order
              expAll == LET E == ExpectedInv(Complete(p1)) IN
                        [k \in 1..Cardinality(E) |-> msgs[CHOOSE j \in E : Cardinality({i \in E : i < j}) = k - 1].tag]
              dispatchOK == /\ Len(inv1) <= Len(expAll)
                            /\ \A k \in 1..Len(inv1) : inv1[k] = expAll[k]
                            /\ (~Line.slow => Len(inv1) = Len(expAll))
              hsNew == {k \in frames : Line.out[k].id \in {"\"gm-1\"", "\"in-2\""}}
              replies == frames \ hsNew
              fin1 == IF Line.ev = "finish" THEN finished \cup {Line.tag}
                      ELSE IF Line.ev = "finish_many" THEN finished \cup {Line.tags[k] : k \in 1..Len(Line.tags)} ELSE finished
              newRep == {TagOf(Line.out[k].id) : k \in replies}
              bad == (IF dispatchOK THEN {} ELSE {"Dispatch"})
                     \cup (IF \A k \in frames : Line.out[k].json THEN {} ELSE {"BrokenFrame"})
                     \cup (IF Line.pending_out = 0 \/ Line.slow THEN {} ELSE {"PartialFrame"})
                     \* a reply: only for a finished request, once, with that request's own result
                     \cup (IF \A k \in replies :
                                LET t == TagOf(Line.out[k].id) IN
                                /\ t # -1 /\ t \in fin1 /\ t \notin replied
                                /\ (Line.out[k].kind = "result" => Line.out[k].echo = t)
                                /\ (Line.out[k].kind = "error" => Line.out[k].errtag = t)
                                /\ Line.out[k].kind \in {"result", "error"}
                           THEN {} ELSE {"Reply"})
                     \cup (IF Cardinality(newRep) = Cardinality(replies) THEN {} ELSE {"DuplicateReply"})
                     \* the reply of a finished request is written in the step that finishes it (unless the reader is
                     \* slow: then it is due at the next read step; the `end` line checks that none is missing)
                     \cup (IF Line.ev = "finish" /\ ~Line.slow /\ Line.tag \notin newRep THEN {"MissingReply"} ELSE {})
                     \cup (IF Line.ev = "finish_many" /\ ~Line.slow /\ ~({Line.tags[k] : k \in 1..Len(Line.tags)} \subseteq newRep)
                           THEN {"MissingReply"} ELSE {})
                     \* handshake replies exactly when their request is complete
                     \cup (IF Line.slow \/ hsdone + Cardinality(hsNew) = (IF Complete(p1) >= 2 THEN 2 ELSE Complete(p1)) THEN {} ELSE {"Handshake"})
          IN /\ pos' = p1 /\ ninv' = ninv + Cardinality(inv)
             /\ replied' = replied \cup newRep /\ finished' = fin1
             /\ hsdone' = hsdone + Cardinality(hsNew)
             /\ viol' = viol \cup bad
             /\ invSeq' = inv1
             /\ UNCHANGED <<ends, msgs>>
Spec == Init /\ [][Next]_vars
Accepted == TLCGet("stats").diameter - 1 = N
=============================================================================
