-------------------------------- MODULE TlvMC --------------------------------
(* Exhaustive check of the codec model on all short byte strings over an     *)
(* alphabet that contains every BigSize prefix and boundary byte.            *)
EXTENDS Tlv, TLC
CONSTANTS Alphabet, MaxLen
RECURSIVE Strings(_)
Strings(n) == IF n = 0 THEN {<<>>} ELSE LET S == Strings(n - 1) IN S \cup {Append(s, a) : s \in {x \in S : Len(x) = n - 1}, a \in Alphabet}
VARIABLE b
Init == b \in Strings(MaxLen)
Next == UNCHANGED b
Spec == Init /\ [][Next]_b
\* decode-then-encode reproduces every valid stream; encode-then-decode reproduces its records
RoundTrip == Valid(b) => /\ Encode(Decode(b)) = b
                         /\ ValidRecs(Decode(b))
                         /\ Decode(Encode(Decode(b))) = Decode(b)
\* a valid stream has no second reading: decoding is injective on valid streams (follows from RoundTrip)
\* vacuity guards: some valid streams with 1 and 2 records exist at this bound
ASSUME Valid(<<1, 0>>) /\ Valid(<<1, 1, 2, 2, 0>>) /\ ~Valid(<<2, 0, 1, 0>>) /\ ~Valid(<<253, 0, 1, 0>>) /\ ~Valid(<<1>>)
ASSUME Decode(<<1, 1, 2, 2, 0>>) = <<[typ |-> FromSmall(1), val |-> <<2>>], [typ |-> FromSmall(2), val |-> <<>>]>>
ASSUME WriteBS(FromSmall(252)) = <<252>> /\ WriteBS(FromSmall(253)) = <<253, 0, 253>> /\ WriteBS(FromSmall(65536)) = <<254, 0, 1, 0, 0>>
ASSUME WriteBS(<<0, 0, 0, 1, 0, 0, 0, 0>>) = <<255, 0, 0, 0, 1, 0, 0, 0, 0>>
=============================================================================
