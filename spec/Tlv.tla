--------------------------------- MODULE Tlv ---------------------------------
(***************************************************************************)
(* BOLT 1 TLV streams over byte sequences (C18, C13).                      *)
(*   BigSize        1, 3, 5 or 9 bytes; canonical = minimal width          *)
(*   record         type (BigSize) length (BigSize) value                  *)
(*   valid stream   complete records, canonical BigSizes, strictly         *)
(*                  increasing types, nothing left over                    *)
(* 64-bit values are kept as 8 big-endian bytes (v8); only lengths are     *)
(* turned into integers, and only when they are small enough to matter.    *)
(***************************************************************************)
EXTENDS Integers, Sequences

Drop(s, n) == SubSeq(s, n + 1, Len(s))
Take(s, n) == SubSeq(s, 1, n)

Pad8(raw) == [i \in 1..8 |-> IF i <= 8 - Len(raw) THEN 0 ELSE raw[i - (8 - Len(raw))]]
\* integer value if below 2^24, else -1 ("huge": larger than any buffer we look at)
Small(v8) == IF v8[1] = 0 /\ v8[2] = 0 /\ v8[3] = 0 /\ v8[4] = 0 /\ v8[5] = 0
             THEN v8[6] * 65536 + v8[7] * 256 + v8[8] ELSE -1
FromSmall(n) == <<0, 0, 0, 0, 0, (n \div 65536) % 256, (n \div 256) % 256, n % 256>>

\* minimal width of the value v8
Width(v8) == IF v8[1] # 0 \/ v8[2] # 0 \/ v8[3] # 0 \/ v8[4] # 0 THEN 9
             ELSE IF v8[5] # 0 \/ v8[6] # 0 THEN 5
             ELSE IF v8[7] # 0 \/ v8[8] >= 253 THEN 3
             ELSE 1

WriteBS(v8) == LET w == Width(v8) IN
  IF w = 1 THEN <<v8[8]>>
  ELSE IF w = 3 THEN <<253, v8[7], v8[8]>>
  ELSE IF w = 5 THEN <<254, v8[5], v8[6], v8[7], v8[8]>>
  ELSE <<255>> \o v8

\* read a BigSize at the head of b: [ok, w, v8, canon]
ReadBS(b) ==
  IF Len(b) = 0 THEN [ok |-> FALSE, w |-> 0, v8 |-> Pad8(<<>>), canon |-> FALSE]
  ELSE LET f == b[1]
           w == IF f < 253 THEN 1 ELSE IF f = 253 THEN 3 ELSE IF f = 254 THEN 5 ELSE 9 IN
       IF Len(b) < w THEN [ok |-> FALSE, w |-> w, v8 |-> Pad8(<<>>), canon |-> FALSE]
       ELSE LET v8 == Pad8(IF w = 1 THEN <<f>> ELSE SubSeq(b, 2, w)) IN
            [ok |-> TRUE, w |-> w, v8 |-> v8, canon |-> Width(v8) = w]

\* lexicographic < on v8 (numeric order of the values)
RECURSIVE LtFrom(_, _, _)
LtFrom(a, b, i) == IF i > 8 THEN FALSE ELSE IF a[i] < b[i] THEN TRUE ELSE IF a[i] > b[i] THEN FALSE ELSE LtFrom(a, b, i + 1)
Lt8(a, b) == LtFrom(a, b, 1)

\* Parse a stream the way BOLT 1 demands.  Result: [ok, recs] ; recs = Seq([typ, val])
\* `prev` = type of the previous record (Pad8(<<>>) with first = TRUE at the start)
RECURSIVE ParseFrom(_, _, _, _)
ParseFrom(b, first, prev, acc) ==
  IF Len(b) = 0 THEN [ok |-> TRUE, recs |-> acc]
  ELSE LET t == ReadBS(b) IN
       IF ~t.ok \/ ~t.canon \/ (~first /\ ~Lt8(prev, t.v8)) THEN [ok |-> FALSE, recs |-> <<>>]
       ELSE LET b1 == Drop(b, t.w)
                n == ReadBS(b1) IN
            IF ~n.ok \/ ~n.canon THEN [ok |-> FALSE, recs |-> <<>>]
            ELSE LET len == Small(n.v8)
                     b2 == Drop(b1, n.w) IN
                 IF len = -1 \/ len > Len(b2) THEN [ok |-> FALSE, recs |-> <<>>]
                 ELSE ParseFrom(Drop(b2, len), FALSE, t.v8, Append(acc, [typ |-> t.v8, val |-> Take(b2, len)]))

Parse(b) == ParseFrom(b, TRUE, Pad8(<<>>), <<>>)
Valid(b) == Parse(b).ok
Decode(b) == Parse(b).recs

RECURSIVE Encode(_)
Encode(recs) == IF recs = <<>> THEN <<>>
                ELSE WriteBS(recs[1].typ) \o WriteBS(FromSmall(Len(recs[1].val))) \o recs[1].val \o Encode(Tail(recs))

\* a length-prefixed payload (onion.payload): BigSize n, then exactly n bytes of a valid stream
ValidPrefixed(b) == LET n == ReadBS(b) IN
  n.ok /\ n.canon /\ Small(n.v8) = Len(b) - n.w /\ Valid(Drop(b, n.w))
DecodePrefixed(b) == Decode(Drop(b, ReadBS(b).w))

\* valid record lists: strictly increasing types
ValidRecs(recs) == \A i \in 1..Len(recs) - 1 : Lt8(recs[i].typ, recs[i + 1].typ)

\* remove the payment-metadata record (type 16)
T16 == FromSmall(16)
StripMetadata(recs) == SelectSeq(recs, LAMBDA r : r.typ # T16)

\* truncated u64: big-endian value of 0..8 bytes (as v8); longer is an error
Tu64(b) == IF Len(b) > 8 THEN [ok |-> FALSE, v8 |-> Pad8(<<>>)] ELSE [ok |-> TRUE, v8 |-> Pad8(b)]
=============================================================================
