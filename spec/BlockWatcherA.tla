---------------------------- MODULE BlockWatcherA ----------------------------
(* BlockWatcher.tla with type annotations for Apalache, heights unbounded (Nat):  *)
(* the height invariant of C20 as an INDUCTIVE invariant (holds for every number  *)
(* of steps and every height, not only within TLC's constants).                   *)
EXTENDS Integers, FiniteSets, Apalache

CONSTANTS
  \* @type: Int;
  Interval

VARIABLES
  \* @type: Int;
  known,
  \* @type: Int;
  nodeH,
  \* @type: Set(Int);
  told,
  \* @type: Str;
  phase,
  \* @type: { st: Str, res: Int };
  call,
  \* @type: Int;
  sleepUntil,
  \* @type: Int;
  now,
  \* @type: Int;
  lastPolled

ConstInit == Interval = 3

Max2(a, b) == IF a >= b THEN a ELSE b
NoCall == [st |-> "none", res |-> 0]

Init == /\ known = 0 /\ nodeH \in Nat /\ told = {} /\ phase = "idle" /\ call = NoCall
        /\ sleepUntil = 0 /\ now = 0 /\ lastPolled = -1

Start == /\ phase = "idle"
         /\ phase' = "startup" /\ call' = [st |-> "issued", res |-> 0]
         /\ UNCHANGED <<known, nodeH, told, sleepUntil, now, lastPolled>>

ExecPoll(ok) == /\ call.st = "issued"
                /\ call' = [st |-> "executed", res |-> IF ok THEN nodeH ELSE -1]
                /\ UNCHANGED <<known, nodeH, told, phase, sleepUntil, now, lastPolled>>

DeliverPoll ==
  /\ call.st = "executed"
  /\ call' = NoCall
  /\ IF call.res = -1
     THEN /\ phase' = IF phase = "startup" THEN "failed" ELSE "sleep"
          /\ UNCHANGED <<known, told, lastPolled>>
     ELSE /\ known' = Max2(known, call.res)
          /\ told' = told \union {call.res}
          /\ lastPolled' = call.res
          /\ phase' = "sleep"
  /\ sleepUntil' = now + Interval
  /\ UNCHANGED <<nodeH, now>>

Tick == /\ now' = now + 1
        /\ IF phase = "sleep" /\ now + 1 >= sleepUntil
           THEN phase' = "poll" /\ call' = [st |-> "issued", res |-> 0]
           ELSE UNCHANGED <<phase, call>>
        /\ UNCHANGED <<known, nodeH, told, sleepUntil, lastPolled>>

Notify(h) == /\ phase \in {"sleep", "poll"}
             /\ known' = Max2(known, h)
             /\ told' = told \union {h}
             /\ UNCHANGED <<nodeH, phase, call, sleepUntil, now, lastPolled>>

NodeAdvance(h) == /\ h > nodeH /\ nodeH' = h
                  /\ UNCHANGED <<known, told, phase, call, sleepUntil, now, lastPolled>>

Next == \/ Start \/ ExecPoll(TRUE) \/ ExecPoll(FALSE) \/ DeliverPoll \/ Tick
        \/ \E h \in Nat : Notify(h) \/ NodeAdvance(h)

\* the inductive invariant: types + "known is the maximum of everything told" + what links the auxiliary variables
IndInv ==
  /\ known \in Nat /\ nodeH \in Nat /\ now \in Nat /\ sleepUntil \in Nat
  /\ told \subseteq Nat
  /\ phase \in {"idle", "startup", "sleep", "poll", "failed"}
  /\ call.st \in {"none", "issued", "executed"}
  /\ (call.st = "executed" => call.res >= -1)
  /\ (told = {} => known = 0)
  /\ (told # {} => known \in told)
  /\ \A x \in told : x <= known
  /\ (lastPolled # -1 => lastPolled \in told)
  /\ (phase = "sleep" => now < sleepUntil /\ sleepUntil - now <= Interval)
  /\ (phase \in {"startup", "poll"} <=> call.st # "none")
  /\ (phase \in {"idle", "startup", "failed"} => told = {} /\ lastPolled = -1)

\* the same as an initial predicate Apalache can start from: any state that satisfies IndInv
\* (told: any set of up to 4 naturals - the step relation adds at most one element, so 4 is as good as any bound)
IndInit ==
  /\ known \in Nat /\ nodeH \in Nat /\ now \in Nat /\ sleepUntil \in Nat /\ lastPolled \in Int
  /\ told = Gen(4)
  /\ phase \in {"idle", "startup", "sleep", "poll", "failed"}
  /\ call \in [st : {"none", "issued", "executed"}, res : Int]
  /\ IndInv

\* C20, as consequences of IndInv
KnownIsMax == (told = {} /\ known = 0) \/ (known \in told /\ \A x \in told : x <= known)
CaughtUp == lastPolled # -1 => known >= lastPolled
==============================================================================
