-------------------------------- MODULE WireMC --------------------------------
EXTENDS Wire
\* three short messages: plain body; body with a lone \n and a 2-byte character; body ending in \n is impossible
\* (a JSON document never ends with \n before the separator in lightningd's output, but a lone \n inside is fine)
MsgsM == << <<0, 0>>, <<0, 10, 1, 2, 0>>, <<1, 2>> >>
===============================================================================
