------------------------------- MODULE BigNat -------------------------------
(* Naturals beyond TLC's 32-bit integers: little-endian sequences of base-10000 *)
(* digits, no leading zero digit; 0 = <<>>.  Used for 64-bit fee arithmetic (C12), *)
(* BigSize values (C18) and option values (C19).                                   *)
EXTENDS Naturals, Sequences
B == 10000
RECURSIVE Norm(_)
Norm(a) == IF a # <<>> /\ a[Len(a)] = 0 THEN Norm(SubSeq(a, 1, Len(a) - 1)) ELSE a
Dig(a, i) == IF i <= Len(a) THEN a[i] ELSE 0
Max2(x, y) == IF x > y THEN x ELSE y
RECURSIVE AddC(_, _, _, _)
AddC(a, b, i, c) == IF i > Max2(Len(a), Len(b)) THEN (IF c = 0 THEN <<>> ELSE <<c>>)
                    ELSE LET s == Dig(a, i) + Dig(b, i) + c IN <<s % B>> \o AddC(a, b, i + 1, s \div B)
Add(a, b) == Norm(AddC(a, b, 1, 0))
RECURSIVE MulD(_, _, _, _)      \* a * single digit d
MulD(a, d, i, c) == IF i > Len(a) THEN (IF c = 0 THEN <<>> ELSE <<c>>)
                    ELSE LET s == a[i] * d + c IN <<s % B>> \o MulD(a, d, i + 1, s \div B)
RECURSIVE MulR(_, _, _)
MulR(a, b, j) == IF j > Len(b) THEN <<>>
                 ELSE Add(MulD(a, b[j], 1, 0), <<0>> \o MulR(a, b, j + 1))
Mul(a, b) == Norm(MulR(a, b, 1))
RECURSIVE DivS(_, _, _, _)      \* a div small d (d < B), processes from most significant digit
DivS(a, d, i, r) == IF i = 0 THEN <<>>
                    ELSE LET cur == r * B + a[i] IN DivS(a, d, i - 1, cur % d) \o <<cur \div d>>
DivSmall(a, d) == Norm(DivS(a, d, Len(a), 0))
RECURSIVE CmpR(_, _, _)
CmpR(a, b, i) == IF i = 0 THEN 0 ELSE IF a[i] > b[i] THEN 1 ELSE IF a[i] < b[i] THEN 0 - 1 ELSE CmpR(a, b, i - 1)
Cmp(a, b) == LET x == Norm(a) y == Norm(b) IN
             IF Len(x) > Len(y) THEN 1 ELSE IF Len(x) < Len(y) THEN 0 - 1 ELSE CmpR(x, y, Len(x))
Geq(a, b) == Cmp(a, b) >= 0
RECURSIVE FromNat(_)
FromNat(n) == IF n = 0 THEN <<>> ELSE <<n % B>> \o FromNat(n \div B)
Div1e6(a) == DivSmall(IF Len(a) <= 1 THEN <<>> ELSE SubSeq(a, 2, Len(a)), 100)  \* /10^4 then /100
RECURSIVE ModS(_, _, _, _)      \* a mod small d
ModS(a, d, i, r) == IF i = 0 THEN r ELSE ModS(a, d, i - 1, (r * B + a[i]) % d)
ModSmall(a, d) == ModS(a, d, Len(a), 0)
RECURSIVE BytesBE(_, _)         \* the k least significant bytes of a, big-endian
BytesBE(a, k) == IF k = 0 THEN <<>> ELSE BytesBE(DivSmall(a, 256), k - 1) \o <<ModSmall(a, 256)>>
\* 2^64 - 1 and 2^32 - 1
U64MAX == <<1615, 955, 737, 6744, 1844>>
U32MAX == <<7295, 9496, 42>>
U16MAX == <<5535, 6>>
Leq(a, b) == Cmp(a, b) <= 0
Lt(a, b) == Cmp(a, b) < 0
Gt(a, b) == Cmp(a, b) > 0
=============================================================================
