---------------------------- MODULE Trampoline ----------------------------
(***************************************************************************)
(* The trampoline plugin (payments table, payment lifecycles, the          *)
(* wait_payment / pay sub-machine, the datastore sub-machine) composed     *)
(* with the node of Node.tla.                                              *)
(*                                                                         *)
(* One action = one environment event + the plugin's complete reaction to  *)
(* it (a "burst": everything the code does until it next waits for the     *)
(* environment; it contains at most one critical section on the payments   *)
(* table, see DESIGN.md 2.1).  Action names follow the code:               *)
(*   Arrive        handle_htlc (htlc_manager.rs 105-197) + check_htlc      *)
(*   Exec          the node executes an RPC issued by the plugin           *)
(*   Deliver       the answer reaches the plugin: the continuation of      *)
(*                 payment_lifecycle / add_payment_attempt / mark_failed / *)
(*                 mark_succeeded / pay / wait_payment at that await point *)
(*   PayPart, PartDone, PayReturn   the pay command's life at the node     *)
(*   Tick          one second passes; expired select! timers fire          *)
(*   Height        block_added / poll raises the known height              *)
(*   Crash         whole-node crash (E7)                                   *)
(* The select! in payment_lifecycle (529-551) is folded into the burst     *)
(* that enables one of its branches; when both the ready and the fail      *)
(* branch are enabled at entry the choice is nondeterministic, as in       *)
(* tokio.                                                                  *)
(***************************************************************************)
EXTENDS Props

CONSTANTS
  Cfg,        \* [base, ppm, pdelta, sdelta, mpp, h0]
  Cat,        \* [1..N -> static HTLC record]   (catalogue of this configuration)
  InvAmt,     \* [InvId -> amount of the invoice, 0 = amountless]
  MaxParts, MaxPays, MaxCrash, MaxClock, MaxW, MaxR,
  HeightSet,  \* heights the chain may rise to
  Probes,     \* Seq of HTLC ids of Cat that are probes: fully funding sets sent one after the other once the run
              \* is over, to a cooperative recipient (C09); <<>> = no probe phase
  Direct,     \* number of direct calls of wait_payment / pay allowed (C15, C16); 0 in lifecycle instances
  Pinned      \* subset of {"D4","D5"}: model the pinned (defective) code at these points

VARIABLES
  table,    \* [Hash -> entry]   the in-memory payments map (volatile)
  own,      \* [Hash -> lifecycle record]  the lifecycle that owns the table entry
  tails,    \* [Hash -> bag of lifecycle records] lifecycles past resolve(), finishing bookkeeping
            \*   (a bag: two tails can be in exactly the same state, e.g. two replayed HTLC sets
            \*   that each found the payment complete and both write Succeeded)
  nextAtt,  \* next attempt id (attempt ids are nanosecond timestamps: unique, increasing)
  lastAns,  \* HTLCs answered in the last step (their answer may be lost by a crash)
  budget    \* [pays, crashes, w, r] : remaining exploration budgets
plugVars == <<table, own, tails, nextAtt, lastAns, budget>>
vars == <<nodeVars, plugVars>>

HtlcIds == DOMAIN Cat

\* bags as functions [element -> count >= 1]
NoTails == <<>>
BagAdd(b, r) == IF r \in DOMAIN b THEN [b EXCEPT ![r] = @ + 1]
                ELSE [x \in (DOMAIN b) \cup {r} |-> IF x = r THEN 1 ELSE b[x]]
BagDel(b, r) == IF b[r] > 1 THEN [b EXCEPT ![r] = @ - 1]
                ELSE [x \in (DOMAIN b) \ {r} |-> b[x]]

---------------------------------------------------------------------------
(* Call records (same content as the `issue` items of a recorded trace)     *)

NoCall == [st |-> "none", c |-> [kind |-> "none", hash |-> ""], res |-> [r |-> "none"]]
Issued(c) == [st |-> "issued", c |-> c, res |-> [r |-> "none"]]

CListDs(h) == [kind |-> "listds", hash |-> h, key |-> "state"]
CW1(h, a)  == [kind |-> "ds", hash |-> h, key |-> "state", a |-> 0, mode |-> "cor", gen |-> -1,
               val |-> [st |-> "pending", a |-> a, t |-> now]]
CW2(h, a, inv, amount) ==
              [kind |-> "ds", hash |-> h, key |-> "att", a |-> a, mode |-> "mc", gen |-> -1,
               val |-> [st |-> "open", inv |-> inv, amount |-> amount]]
CF1(h, a, inv, amount) ==
              [kind |-> "ds", hash |-> h, key |-> "att", a |-> a,
               mode |-> IF "D4" \in Pinned THEN "mr" ELSE "cor", gen |-> -1,
               val |-> [st |-> "failed", inv |-> inv, amount |-> amount]]
CF2(h, g)  == [kind |-> "ds", hash |-> h, key |-> "state", a |-> 0, mode |-> "mr", gen |-> g,
               val |-> [st |-> "free"]]
CS1(h)     == [kind |-> "ds", hash |-> h, key |-> "state", a |-> 0, mode |-> "cor", gen |-> -1,
               val |-> [st |-> "succeeded", key |-> h]]
CS2(h, a, inv, amount) ==
              [kind |-> "ds", hash |-> h, key |-> "att", a |-> a, mode |-> "mr", gen |-> -1,
               val |-> [st |-> "ok", inv |-> inv, amount |-> amount]]
CLists(h, status) == [kind |-> "lists", hash |-> h, status |-> status]
CWait(h, p) == [kind |-> "wait", hash |-> h, part |-> p, timeout |-> -1, at |-> now]
CPay(h, inv, amount, maxfee, maxdelay) ==
              [kind |-> "pay", hash |-> h, inv |-> inv, amount |-> amount, maxfee |-> maxfee,
               maxdelay |-> maxdelay, invamt |-> InvAmt[inv]]

---------------------------------------------------------------------------
(* Plugin state                                                             *)

NoEntry == [on |-> FALSE, inv |-> 0, A |-> 0, recv |-> 0, minexp |-> 0,
            ready |-> FALSE, failreq |-> FALSE, readyQ |-> 0, failQ |-> NoResp]
NoWaits == <<>>    \* [part id -> call slot] of the waitsendpay calls in progress
NoLc == [pc |-> "none", mode |-> "lc", inv |-> 0, A |-> 0, a |-> 0, g |-> 0, t |-> 0, deadline |-> 0,
         maxfee |-> 0, maxdelay |-> 0, site |-> "none",
         main |-> NoCall, lc |-> NoCall, lp |-> NoCall, waits |-> NoWaits]

FailNode  == [r |-> "fail", key |-> "", code |-> "node"]
FailTramp == [r |-> "fail", key |-> "", code |-> "tramp"]
FailFee   == [r |-> "fail", key |-> "", code |-> "fee"]
Settle(h) == [r |-> "resolve", key |-> h, code |-> ""]
Continue  == [r |-> "continue", key |-> "", code |-> ""]

Init ==
  /\ NodeInit(Cfg)
  /\ htlc = [i \in HtlcIds |-> Cat[i]]
  /\ table = [h \in Hashes |-> NoEntry]
  /\ own = [h \in Hashes |-> NoLc]
  /\ tails = [h \in Hashes |-> NoTails]
  /\ nextAtt = 1
  /\ lastAns = {}
  /\ budget = [pays |-> MaxPays, crashes |-> MaxCrash, w |-> MaxW, r |-> MaxR, direct |-> Direct, phase |-> "run"]

---------------------------------------------------------------------------
(* A burst's effect on the plugin state of ONE hash is computed             *)
(* functionally: a record                                                   *)
(*   [e, o, ts : new entry / owner / tails;  resp : NoResp or the response  *)
(*    resolve() broadcasts;  issues, drops : sets;  np : panics;  na : nextAtt] *)

Res(e, o, ts, resp, issues, drops, np, na) ==
  [e |-> e, o |-> o, ts |-> ts, resp |-> resp, issues |-> issues, drops |-> drops, np |-> np, na |-> na, rets |-> {}]
\* a direct call of wait_payment / pay returns r to its caller
Ret(e, ts, fn, h, r, drops, na) ==
  [Res(e, NoLc, ts, NoResp, {}, drops, 0, na) EXCEPT
     !.rets = {[fn |-> fn, hash |-> h, r |-> r, key |-> IF r \in {"pre", "ok"} THEN h ELSE ""]}]

\* lifecycle ends, answering every listener with resp (resolve(): entry removed)
Done(ts, resp, na) == Res(NoEntry, NoLc, ts, resp, {}, {}, 0, na)

\* outstanding calls of a lifecycle record, as drop records
SlotsOf(rec) == {rec.main, rec.lc, rec.lp} \cup {rec.waits[p] : p \in DOMAIN rec.waits}
DropsOf(rec) == {[c |-> s.c, cst |-> s.st] : s \in {x \in SlotsOf(rec) : x.st \in {"issued", "running", "executed"}}}

\* maximum route delay, htlc_manager.rs 575-583 (saturating; u16 clamp irrelevant at model sizes)
MaxDelay(e) == Lo(Hi(0, Hi(0, e.minexp - height) - cfg.sdelta), cfg.pdelta)

\* select! branch "ready" (548-614): read the table, start add_payment_attempt
LcReady(h, e, o, ts, na) ==
  LET c == CW1(h, na)
      o1 == [o EXCEPT !.pc = "addW1", !.a = na, !.t = now,
                      !.maxfee = Hi(0, e.recv - o.A), !.maxdelay = MaxDelay(e),
                      !.main = Issued(c)]
  IN Res([e EXCEPT !.readyQ = 0], o1, ts, NoResp, {c}, {}, 0, na + 1)

\* entering the select! with `left` ticks to go: the set of possible continuations
EnterSelect(h, e, o, ts, left, na) ==
  LET o1 == [o EXCEPT !.pc = "select", !.deadline = now + left, !.main = NoCall] IN
  IF left = 0 THEN {Done(ts, FailTramp, na)}
  ELSE (IF e.failQ.r # "none" THEN {Done(ts, e.failQ, na)} ELSE {})
       \cup (IF e.readyQ = 1 THEN {LcReady(h, e, o1, ts, na)} ELSE {})
       \cup (IF e.failQ.r = "none" /\ e.readyQ = 0 THEN {Res(e, o1, ts, NoResp, {}, {}, 0, na)} ELSE {})

\* wait_payment starts (payment_provider.rs 149-170)
StartWait(h, e, o, ts, site, na) ==
  IF "D5" \in Pinned
  THEN LET c1 == CLists(h, "complete") c2 == CLists(h, "pending") IN
       Res(e, [o EXCEPT !.pc = "lists", !.site = site, !.main = NoCall,
                        !.lc = Issued(c1), !.lp = Issued(c2)], ts, NoResp, {c1, c2}, {}, 0, na)
  ELSE LET c2 == CLists(h, "pending") IN
       Res(e, [o EXCEPT !.pc = "listp", !.site = site, !.main = NoCall, !.lp = Issued(c2)],
           ts, NoResp, {c2}, {}, 0, na)

ClearFrame(o) == [o EXCEPT !.lc = NoCall, !.lp = NoCall, !.waits = NoWaits]

\* wait_payment returned ret \in {"pre","none","err"} to its call site
AfterWait(h, e, o0, ts, ret, drops, na) ==
  LET o == ClearFrame(o0) IN
  IF o.mode = "dwp" THEN Ret(e, ts, "wp", h, ret, drops, na)
  ELSE IF o.mode = "dpay" THEN Ret(e, ts, "pay", h, IF ret = "pre" THEN "ok" ELSE "err", drops, na)
  ELSE IF o.site = "restart"
  THEN CASE ret = "pre"  -> LET c == CS1(h) IN    \* 445-464: resolve, then mark_succeeded as a tail
                            Res(NoEntry, NoLc, BagAdd(ts, [o EXCEPT !.pc = "markS1", !.main = Issued(c)]),
                                Settle(h), {c}, drops, 0, na)
         [] ret = "none" -> LET c == CF1(h, o.a, o.inv, o.A) IN   \* 467-480 mark_failed, still owner
                            Res(e, [o EXCEPT !.pc = "rmarkF1", !.main = Issued(c)], ts, NoResp, {c}, drops, 0, na)
         [] OTHER        -> \* 496-503 todo!(): the lifecycle task dies, the entry stays (K1)
                            Res(e, [o EXCEPT !.pc = "panicked", !.main = NoCall], ts, NoResp, {}, drops, 1, na)
  ELSE \* inside pay(): 110-144, then lifecycle 617-660
       CASE ret = "pre"  -> LET c == CS1(h) IN
                            Res(NoEntry, NoLc, BagAdd(ts, [o EXCEPT !.pc = "markS1", !.main = Issued(c)]),
                                Settle(h), {c}, drops, 0, na)
         [] OTHER        -> LET c == CF1(h, o.a, o.inv, o.A) IN   \* none, or wait_payment's error (K3)
                            Res(NoEntry, NoLc, BagAdd(ts, [o EXCEPT !.pc = "markF1", !.main = Issued(c)]),
                                FailTramp, {c}, drops, 0, na)

\* both listings are in (or the only one, on error): rest of wait_payment 171-219
AfterLists(h, e, o, ts, na) ==
  IF o.lp.res.r = "error" \/ o.lc.res.r = "error"
  THEN AfterWait(h, e, o, ts, "err", {}, na)
  ELSE IF o.lc.res.parts # {} THEN AfterWait(h, e, o, ts, "pre", {}, na)
  ELSE IF o.lp.res.parts = {} THEN AfterWait(h, e, o, ts, "none", {}, na)
  ELSE LET ws == [p \in o.lp.res.parts |-> Issued(CWait(h, p))] IN
       Res(e, [o EXCEPT !.pc = "waits", !.lc = NoCall, !.lp = NoCall, !.waits = ws], ts, NoResp,
           {ws[p].c : p \in DOMAIN ws}, {}, 0, na)

---------------------------------------------------------------------------
(* Continuation of the OWNER lifecycle of h when the call in `slot` is      *)
(* delivered.  Returns the set of possible results.                         *)

OwnerDeliver(h, slot, p) ==
  LET e == table[h]  o == own[h]  ts == tails[h]  na == nextAtt IN
  CASE o.pc = "fetch" /\ slot = "main" ->
         LET r == o.main.res IN
         IF r.r # "ok" THEN {Done(ts, FailNode, na)}                        \* 416-428 (K2)
         ELSE IF r.st \in {"absent", "free"} THEN EnterSelect(h, e, o, ts, cfg.mpp, na)
         ELSE IF r.st = "succeeded" THEN {Done(ts, [r |-> "resolve", key |-> r.key, code |-> ""], na)}
         ELSE IF r.st = "pending"
              THEN {StartWait(h, e, [o EXCEPT !.a = r.a, !.g = r.gen, !.t = r.t], ts, "restart", na)}
         ELSE {Done(ts, FailNode, na)}
    [] o.pc = "lists" /\ slot \in {"lc", "lp"} ->        \* pinned code: join! of both listings
         LET o1 == o IN
         IF (IF slot = "lc" THEN o.lp.st ELSE o.lc.st) = "delivered"
         THEN {AfterLists(h, e, o1, ts, na)}
         ELSE {Res(e, IF slot = "lc" THEN [o EXCEPT !.lc.st = "delivered"] ELSE [o EXCEPT !.lp.st = "delivered"],
                   ts, NoResp, {}, {}, 0, na)}
    [] o.pc = "listp" /\ slot = "lp" ->                  \* repaired code: pending first ...
         IF o.lp.res.r = "error" THEN {AfterWait(h, e, o, ts, "err", {}, na)}
         ELSE LET c == CLists(h, "complete") IN
              {Res(e, [o EXCEPT !.pc = "listc", !.lc = Issued(c)], ts, NoResp, {c}, {}, 0, na)}
    [] o.pc = "listc" /\ slot = "lc" -> {AfterLists(h, e, o, ts, na)}    \* ... then complete
    [] o.pc = "waits" /\ slot = "w" ->
         LET r == o.waits[p].res
             rest == [q \in (DOMAIN o.waits) \ {p} |-> o.waits[q]]
             o1 == [o EXCEPT !.waits = rest]
         IN IF r.r = "complete" THEN {AfterWait(h, e, o1, ts, "pre", DropsOf(o1), na)}
            ELSE IF r.r = "code" /\ r.code \in {202, 203, 204, 208, 209}
                 THEN IF DOMAIN rest = {} THEN {AfterWait(h, e, o1, ts, "none", {}, na)}
                      ELSE {Res(e, o1, ts, NoResp, {}, {}, 0, na)}
            ELSE {AfterWait(h, e, o1, ts, "err", DropsOf(o1), na)}
    [] o.pc = "rmarkF1" /\ slot = "main" ->
         IF o.main.res.r = "ok"
         THEN LET c == CF2(h, o.g) IN {Res(e, [o EXCEPT !.pc = "rmarkF2", !.main = Issued(c)], ts, NoResp, {c}, {}, 0, na)}
         ELSE {Done(ts, FailNode, na)}                                       \* 468-479
    [] o.pc = "rmarkF2" /\ slot = "main" ->
         IF o.main.res.r = "ok"
         THEN EnterSelect(h, e, o, ts, Hi(0, cfg.mpp - Hi(0, now - o.t)), na)   \* 488-494
         ELSE {Done(ts, FailNode, na)}
    [] o.pc = "addW1" /\ slot = "main" ->
         IF o.main.res.r = "ok"
         THEN LET c == CW2(h, o.a, o.inv, o.A) IN
              {Res(e, [o EXCEPT !.pc = "addW2", !.g = o.main.res.gen, !.main = Issued(c)], ts, NoResp, {c}, {}, 0, na)}
         ELSE {Done(ts, FailNode, na)}                                       \* 587-600
    [] o.pc = "addW2" /\ slot = "main" ->
         IF o.main.res.r = "ok"
         THEN LET c == CPay(h, o.inv, IF InvAmt[o.inv] = 0 THEN o.A ELSE -1, o.maxfee, o.maxdelay) IN
              {Res(e, [o EXCEPT !.pc = "pay", !.main = Issued(c)], ts, NoResp, {c}, {}, 0, na)}
         ELSE {Done(ts, FailNode, na)}
    [] o.pc = "pay" /\ slot = "main" ->
         LET out == o.main.res.r IN
         IF o.mode = "dpay" /\ out \in {"complete", "failed"}
         THEN {Ret(e, ts, "pay", h, IF out = "complete" THEN "ok" ELSE "err", {}, na)}
         ELSE IF out = "complete"
         THEN LET c == CS1(h) IN
              {Res(NoEntry, NoLc, BagAdd(ts, [o EXCEPT !.pc = "markS1", !.main = Issued(c)]), Settle(h), {c}, {}, 0, na)}
         ELSE IF out = "failed"
         THEN LET c == CF1(h, o.a, o.inv, o.A) IN
              {Res(NoEntry, NoLc, BagAdd(ts, [o EXCEPT !.pc = "markF1", !.main = Issued(c)]), FailTramp, {c}, {}, 0, na)}
         ELSE {StartWait(h, e, o, ts, "pay", na)}
    [] OTHER -> {}

\* Continuation of a TAIL lifecycle t of h (bookkeeping after resolve()).
TailDeliver(h, t) ==
  LET ts == BagDel(tails[h], t)
      ok == t.main.res.r = "ok"
      next(pc, c) == Res(table[h], own[h], BagAdd(ts, [t EXCEPT !.pc = pc, !.main = Issued(c)]), NoResp, {c}, {}, 0, nextAtt)
      fin == Res(table[h], own[h], ts, NoResp, {}, {}, 0, nextAtt)
  IN CASE t.pc = "markS1" -> IF ok THEN next("markS2", CS2(h, t.a, t.inv, t.A)) ELSE fin
       [] t.pc = "markS2" -> fin
       [] t.pc = "markF1" -> IF ok THEN next("markF2", CF2(h, t.g)) ELSE fin
       [] t.pc = "markF2" -> fin
       [] OTHER -> fin

---------------------------------------------------------------------------
(* Applying a result                                                        *)

Listeners(h) == HeldT(h)

Apply(h, ev, r, extraAns) ==
  LET who == IF r.resp.r = "none" THEN {} ELSE Listeners(h) \cup (IF ev.t = "htlc" /\ ev.rec.cls = "tramp" /\ ev.rec.key = h THEN {ev.i} ELSE {})
      answers == [i \in who \cup DOMAIN extraAns |-> IF i \in who THEN r.resp ELSE extraAns[i]]
  IN /\ table' = [table EXCEPT ![h] = r.e]
     /\ own' = [own EXCEPT ![h] = r.o]
     /\ tails' = [tails EXCEPT ![h] = r.ts]
     /\ nextAtt' = r.na
     /\ lastAns' = DOMAIN answers
     /\ NodeStep(ev, [answers |-> answers, issues |-> r.issues, drops |-> r.drops, npanic |-> r.np, rets |-> r.rets])

EnvOnly(ev) ==
  /\ NodeStep(ev, NoReaction)
  /\ lastAns' = {}

---------------------------------------------------------------------------
(* Actions                                                                  *)

\* handle_htlc
ProbeIds == {Probes[k] : k \in 1..Len(Probes)}
ProbeTurn(i) == \E k \in 1..Len(Probes) : Probes[k] = i /\ \A j \in 1..k - 1 : htlc[Probes[j]].st = "answered"

Arrive(i) ==
  /\ htlc[i].st = "unsent"
  /\ IF i \in ProbeIds THEN budget.phase = "probe" /\ ProbeTurn(i) ELSE budget.phase = "run"
  /\ LET rec == htlc[i]
         ev == [t |-> "htlc", i |-> i, rec |-> rec]
         h == rec.key
     IN CASE rec.cls = "cont" ->
               /\ NodeStep(ev, [NoReaction EXCEPT !.answers = (i :> Continue)])
               /\ lastAns' = {i}
               /\ UNCHANGED <<table, own, tails, nextAtt, budget>>
          [] rec.cls = "failnode" ->
               /\ NodeStep(ev, [NoReaction EXCEPT !.answers = (i :> FailNode)])
               /\ lastAns' = {i}
               /\ UNCHANGED <<table, own, tails, nextAtt, budget>>
          [] OTHER ->
               LET fresh == ~table[h].on
                   e0 == IF fresh THEN [NoEntry EXCEPT !.on = TRUE, !.inv = rec.inv, !.A = rec.A, !.minexp = 1000000]
                         ELSE table[h]
                   c0 == CListDs(h)
                   o0 == IF fresh THEN [NoLc EXCEPT !.pc = "fetch", !.inv = rec.inv, !.A = rec.A, !.main = Issued(c0)]
                         ELSE own[h]
                   iss0 == IF fresh THEN {c0} ELSE {}
                   tot == IF rec.total # 0 THEN rec.total ELSE rec.amt
                   \* 140-183: the first failing test wins (fail() is first-wins)
                   why == IF e0.inv # rec.inv \/ e0.A # rec.A THEN FailTramp
                          ELSE IF rec.rel < cfg.pdelta THEN FailFee
                          ELSE IF ~FeeOK(tot, rec.A) THEN FailFee
                          ELSE NoResp
                   e1 == IF why.r # "none" /\ ~e0.failreq
                         THEN [e0 EXCEPT !.ready = FALSE, !.failreq = TRUE, !.failQ = why] ELSE e0
                   recv == e1.recv + rec.amt
                   mk == ~e1.ready /\ ~e1.failreq /\ FeeOK(recv, e1.A)      \* add_htlc 733-761
                   e2 == [e1 EXCEPT !.recv = recv, !.minexp = Lo(@, rec.exp),
                                    !.ready = IF mk THEN TRUE ELSE @, !.readyQ = IF mk THEN 1 ELSE @]
                   r == IF o0.pc = "select" /\ e2.failQ.r # "none" THEN Done(tails[h], e2.failQ, nextAtt)
                        ELSE IF o0.pc = "select" /\ e2.readyQ = 1 THEN LcReady(h, e2, o0, tails[h], nextAtt)
                        ELSE Res(e2, o0, tails[h], NoResp, {}, {}, 0, nextAtt)
               IN /\ Apply(h, ev, [r EXCEPT !.issues = @ \cup iss0], <<>>)
                  /\ UNCHANGED budget

\* designators of the call slots of hash h: [who, t, slot, p]
\*   who = "own" (t = NoLc) or "tail" (t = the tail record);
\*   slot \in {"main","lc","lp","w"}; p = part id for "w"
Desig(who, t, slot, p) == [who |-> who, t |-> t, slot |-> slot, p |-> p]
LcOf(h, d) == IF d.who = "own" THEN own[h] ELSE d.t
SlotRec(h, d) ==
  LET rec == LcOf(h, d) IN
  CASE d.slot = "main" -> rec.main [] d.slot = "lc" -> rec.lc [] d.slot = "lp" -> rec.lp
    [] OTHER -> rec.waits[d.p]
Desigs(h) ==
  {Desig("own", NoLc, s, 0) : s \in {"main", "lc", "lp"}}
  \cup {Desig("own", NoLc, "w", p) : p \in DOMAIN own[h].waits}
  \cup {Desig("tail", t, "main", 0) : t \in DOMAIN tails[h]}

WithSlot(rec, slot, p, s) ==
  CASE slot = "main" -> [rec EXCEPT !.main = s] [] slot = "lc" -> [rec EXCEPT !.lc = s]
    [] slot = "lp" -> [rec EXCEPT !.lp = s] [] OTHER -> [rec EXCEPT !.waits[p] = s]

SetSlot(h, d, s) ==
  IF d.who = "own"
  THEN /\ own' = [own EXCEPT ![h] = WithSlot(own[h], d.slot, d.p, s)]
       /\ UNCHANGED tails
  ELSE /\ tails' = [tails EXCEPT ![h] = BagAdd(BagDel(@, d.t), WithSlot(d.t, d.slot, d.p, s))]
       /\ UNCHANGED own

FaultsFor(c) ==
  {"none"} \cup (IF c.kind = "ds" /\ budget.w > 0 THEN {"reject", "lost"} ELSE {})
           \cup (IF c.kind \in {"listds", "lists", "wait"} /\ budget.r > 0 THEN {"error"} ELSE {})

\* the node executes an issued call
Exec(h, d, fault) ==
  LET s == SlotRec(h, d) IN
  /\ s.st = "issued"
  /\ ExecEnabled(s.c)
  /\ fault \in FaultsFor(s.c)
  /\ s.c.kind = "pay" => budget.pays > 0
  /\ SetSlot(h, d,
             [s EXCEPT !.st = IF s.c.kind = "pay" THEN "running" ELSE "executed", !.res = ExecRes(s.c, fault)])
  /\ EnvOnly([t |-> "exec", who |-> d.who, c |-> s.c, fault |-> fault])
  /\ budget' = [budget EXCEPT !.pays = IF s.c.kind = "pay" THEN @ - 1 ELSE @,
                              !.w = IF fault \in {"reject", "lost"} THEN @ - 1 ELSE @,
                              !.r = IF fault = "error" THEN @ - 1 ELSE @]
  /\ UNCHANGED <<table, nextAtt>>

PayRunningAt(h) == own[h].pc = "pay" /\ own[h].main.st = "running"

PayPart(h) ==
  /\ PayRunningAt(h)
  /\ IF budget.phase = "probe" THEN ~Live(h) ELSE Len(parts) < MaxParts   \* cooperative recipient: one part
  /\ EnvOnly([t |-> "paypart", hash |-> h])
  /\ UNCHANGED <<table, own, tails, nextAtt, budget>>

PartDone(p, how, code) ==
  /\ p \in PartIds /\ parts[p].st = "pending"
  /\ budget.phase = "probe" => how = "complete"
  /\ EnvOnly([t |-> "partdone", p |-> p, how |-> how, code |-> code])
  /\ UNCHANGED <<table, own, tails, nextAtt, budget>>

\* direct calls (Engine A-prov): wait_payment(h) / pay(invoice of h) called with no lifecycle around
CallWp(h) ==
  /\ budget.direct > 0 /\ own[h].pc = "none" /\ ~table[h].on
  /\ Apply(h, [t |-> "call", fn |-> "wp", hash |-> h],
           StartWait(h, NoEntry, [NoLc EXCEPT !.mode = "dwp"], tails[h], "direct", nextAtt), <<>>)
  /\ budget' = [budget EXCEPT !.direct = @ - 1]

CallPay(h) ==
  /\ budget.direct > 0 /\ own[h].pc = "none" /\ ~table[h].on
  /\ LET c == CPay(h, 1, -1, 1, 10) IN
     Apply(h, [t |-> "call", fn |-> "pay", hash |-> h],
           Res(NoEntry, [NoLc EXCEPT !.mode = "dpay", !.pc = "pay", !.inv = 1, !.main = Issued(c)], tails[h],
               NoResp, {c}, {}, 0, nextAtt), <<>>)
  /\ budget' = [budget EXCEPT !.direct = @ - 1]

\* a part left behind by an earlier attempt (only while nobody is waiting: E3, E5)
MkPart(h) ==
  /\ Direct > 0 /\ budget.direct > 0 /\ own[h].pc = "none"
  /\ Len(parts) < MaxParts
  /\ EnvOnly([t |-> "paypart", hash |-> h])
  /\ UNCHANGED <<table, own, tails, nextAtt, budget>>

PayOutcomes == {"complete", "pending", "failed_warn", "failed", "error"}

\* E4: complete needs a completed part; FAILED without the warning needs nothing live
PayReturn(h, outcome) ==
  /\ PayRunningAt(h)
  /\ budget.phase = "probe" => outcome = "complete"
  /\ outcome = "complete" => Completed(h)
  /\ outcome = "failed" => ~Live(h)
  /\ own' = [own EXCEPT ![h].main = [@ EXCEPT !.st = "executed", !.res = [r |-> outcome]]]
  /\ EnvOnly([t |-> "payreturn", hash |-> h, outcome |-> outcome])
  /\ UNCHANGED <<table, tails, nextAtt, budget>>

\* the answer of the call reaches the plugin
Deliver(h, d) ==
  LET s == SlotRec(h, d)
      ev == [t |-> "deliver", who |-> d.who, c |-> s.c, res |-> s.res]
  IN /\ s.st = "executed"
     /\ IF d.who = "own"
        THEN \E r \in OwnerDeliver(h, d.slot, d.p) : Apply(h, ev, r, <<>>)
        ELSE Apply(h, ev, TailDeliver(h, d.t), <<>>)
     /\ UNCHANGED budget

\* C09: the run is over (nothing of the plugin is active); from now on only the probe sets arrive, one after the
\* other, no more crashes or faults, and the recipient cooperates
Quiescent == \A h \in Hashes : own[h].pc = "none" /\ DOMAIN tails[h] = {}
StartProbe ==
  /\ Probes # <<>> /\ budget.phase = "run" /\ Quiescent
  /\ budget' = [pays |-> Len(Probes), crashes |-> 0, w |-> 0, r |-> 0, direct |-> 0, phase |-> "probe"]
  /\ EnvOnly([t |-> "probe"])
  /\ UNCHANGED <<table, own, tails, nextAtt>>

\* one second passes; every expired select! timer fires (530-534)
Tick ==
  /\ now < MaxClock
  /\ LET exp == {h \in Hashes : own[h].pc = "select" /\ now + 1 >= own[h].deadline}
         who == UNION {Listeners(h) : h \in exp}
     IN /\ table' = [h \in Hashes |-> IF h \in exp THEN NoEntry ELSE table[h]]
        /\ own' = [h \in Hashes |-> IF h \in exp THEN NoLc ELSE own[h]]
        /\ lastAns' = who
        /\ NodeStep([t |-> "tick"], [NoReaction EXCEPT !.answers = [i \in who |-> FailTramp]])
  /\ UNCHANGED <<tails, nextAtt, budget>>

Height(x) ==
  /\ x \in HeightSet /\ x > height
  /\ EnvOnly([t |-> "height", h |-> x])
  /\ UNCHANGED <<table, own, tails, nextAtt, budget>>

\* E7: whole-node crash; the answers of the last step may not have reached the node
Crash(lose) ==
  /\ budget.crashes > 0
  /\ lose => lastAns # {}
  /\ NodeStep([t |-> "crash", lost |-> IF lose THEN lastAns ELSE {}], NoReaction)
  /\ table' = [h \in Hashes |-> NoEntry]
  /\ own' = [h \in Hashes |-> NoLc]
  /\ tails' = [h \in Hashes |-> NoTails]
  /\ lastAns' = {}
  /\ budget' = [budget EXCEPT !.crashes = @ - 1]
  /\ UNCHANGED nextAtt

Next ==
  \/ \E i \in HtlcIds : Arrive(i)
  \/ \E h \in Hashes : \E d \in Desigs(h) :
        \/ \E f \in {"none", "reject", "lost", "error"} : Exec(h, d, f)
        \/ Deliver(h, d)
  \/ \E h \in Hashes : PayPart(h) \/ MkPart(h) \/ CallWp(h) \/ CallPay(h)
  \/ \E h \in Hashes, o \in PayOutcomes : PayReturn(h, o)
  \/ \E p \in PartIds : PartDone(p, "complete", 0) \/ PartDone(p, "failed", 203)
  \/ Tick \/ StartProbe
  \/ \E x \in HeightSet : Height(x)
  \/ Crash(FALSE) \/ Crash(TRUE)

Spec == Init /\ [][Next]_vars

---------------------------------------------------------------------------
(* Structural invariants of the model *)

TypeOK ==
  /\ \A h \in Hashes : table[h].on <=> (own[h].pc # "none" /\ own[h].mode = "lc")
  /\ \A h \in Hashes : ~table[h].on => HeldT(h) = {}

(* C09 on the design: once every probe set has been answered, one of them was settled with the preimage *)
C09design == (Probes # <<>> /\ \A k \in 1..Len(Probes) : htlc[Probes[k]].st = "answered")
               => \E k \in 1..Len(Probes) : htlc[Probes[k]].resp.r = "resolve" /\ htlc[Probes[k]].resp.key = htlc[Probes[k]].hash

\* the listed properties as action properties of the design
PC01 == [][C01]_vars
PC02 == [][C02]_vars
PC03 == [][C03]_vars
PC04 == [][C04]_vars
PC05 == [][C05]_vars
PC06 == [][C06once /\ C06nopanic /\ C06wellformed]_vars
PC07 == [][C07]_vars
PC08 == [][C08]_vars
PC11 == [][C11]_vars
PC12 == [][C12]_vars
PC13 == [][C13 /\ C10hint]_vars
PAudit == [][Audit]_vars
PC15 == [][C15]_vars
PC16 == [][C16]_vars

=============================================================================
