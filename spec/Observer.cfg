CONSTANTS
  Hashes = {"h1", "h2", "h3", "h4", "h5", "h6"}
SPECIFICATION Spec
POSTCONDITION Accepted
CHECK_DEADLOCK FALSE
