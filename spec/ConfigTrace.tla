------------------------------ MODULE ConfigTrace ------------------------------
(***************************************************************************)
(* Judge for C19 on the REAL binary.  One line per start of the plugin     *)
(* with one assignment of the options:                                     *)
(*   started   the init call was answered (else the process exited)        *)
(*   feebytes  failure message returned for an HTLC whose declared total   *)
(*             is too low (reveals the advertised policy)                  *)
(*   pay       the pay RPC issued for a funded HTLC: retry_for, maxdelay   *)
(*             for a far and for a near expiry, label/riskfactor           *)
(*   hint      answer to an HTLC whose invoice routes through ourselves    *)
(*   mppclass  when the set that never completes was failed, relative to   *)
(*             the configured timeout ("ontime" | "early" | "late" | "na") *)
(***************************************************************************)
EXTENDS Config, Json, IOUtils, TLC, Sequences
Rec == ndJsonDeserialize(IOEnv.TRACE)
N == Len(Rec)
VARIABLE l
Init == l = 1

MinBN(a, b) == IF Leq(a, b) THEN a ELSE b
\* max route delay for an HTLC expiring at `exp` (BigNat) with chain height h: min(max(0, exp - h - sdelta), pdelta)
\* the harness gives exp - h as `gap` (BigNat)
Bad(r) ==
  LET o == r.opts IN
  IF Refuse(o) THEN (IF r.started THEN {"StartedWithBadOptions"} ELSE {})
  ELSE IF ~r.started THEN {"RefusedGoodOptions"}
  ELSE IF o.mpp.d = <<>>     \* a zero MPP timeout: every set is failed at once, nothing else is observable
  THEN (IF r.mppclass \in {"ontime", "na"} THEN {} ELSE {"MppTimeout"})
  ELSE (IF r.feebytes = FeeBytesBN(o) THEN {} ELSE {"Policy"})
       \cup (IF r.pay.retry = Params(o).retry THEN {} ELSE {"RetryFor"})
       \* far expiry: the policy delta caps the route delay; near expiry: expiry - height - safety delta
       \cup (IF r.pay.delay_far = Params(o).pdelta THEN {} ELSE {"PolicyDelta"})
       \cup (IF r.pay.delay_near = r.near_expected THEN {} ELSE {"SafetyDelta"})
       \cup (IF r.near_gap = Add(o.sdelta.d, r.near_expected) /\ Leq(r.near_expected, o.pdelta.d) THEN {} ELSE {"HarnessNear"})
       \* expiry one block above the policy delta: expiry - height - safety delta (< policy delta) is what may be granted
       \cup (IF r.mid_probed => r.pay.delay_mid = r.mid_expected THEN {} ELSE {"SafetyDeltaAbovePolicy"})
       \cup (IF r.mid_probed => (r.mid_gap = Add(o.sdelta.d, r.mid_expected) /\ Leq(r.mid_expected, o.pdelta.d)) THEN {} ELSE {"HarnessMid"})
       \cup (IF r.pay.label = ~o.xpay /\ r.pay.risk = ~o.xpay THEN {} ELSE {"Xpay"})
       \cup (IF r.hint = (IF o.nohints THEN "failnode" ELSE "held") THEN {} ELSE {"SelfHints"})
       \cup (IF r.mppclass \in {"ontime", "na"} THEN {} ELSE {"MppTimeout"})
Next == /\ l <= N /\ l' = l + 1
        /\ LET b == Bad(Rec[l]) IN b # {} => PrintT(<<"CFGVIOL", Rec[l].run, b>>)
Spec == Init /\ [][Next]_l
Accepted == TLCGet("stats").diameter - 1 = N
=============================================================================
