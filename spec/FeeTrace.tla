------------------------------ MODULE FeeTrace ------------------------------
(***************************************************************************)
(* Judges the REAL fee_sufficient at 64 bits.  Each line of the trace is   *)
(* one call made by the harness: the arguments as BigNat digit sequences   *)
(* and the observed result ("true" | "false" | "panic"), for one build     *)
(* (overflow checks on / off).  Expected: the exact predicate of C12;      *)
(* inside the MulOverflowReject region (K4) the recorded deviation "false" *)
(* is reported as known finding, anything else as a violation.             *)
(***************************************************************************)
EXTENDS BigNat, Json, IOUtils, TLC

Rec == ndJsonDeserialize(IOEnv.TRACE)
N == Len(Rec)

E6 == <<0, 100>>      \* 10^6
ExactBN(total, amount, base, ppm) ==
  LET rhs == Add(amount, Add(base, Div1e6(Mul(amount, ppm)))) IN Leq(rhs, U64MAX) /\ Geq(total, rhs)
MulOverflow(amount, ppm) == Gt(Mul(amount, ppm), U64MAX)

VARIABLES l, bad, k4
Init == l = 1 /\ bad = 0 /\ k4 = 0
Next ==
  /\ l <= N
  /\ l' = l + 1
  /\ IF Rec[l].kind = "enc"
     THEN LET r == Rec[l]
              want == <<32, 26>> \o BytesBE(r.base, 4) \o BytesBE(r.ppm, 4) \o BytesBE(r.delta, 2) IN
          IF r.res = "ok" /\ r.bytes = want /\ r.node = <<32, 2>> /\ r.tramp = <<32, 25>>
          THEN UNCHANGED <<bad, k4>>
          ELSE PrintT(<<"FEEVIOL", l, r.build, "enc", r.bytes>>) /\ bad' = bad + 1 /\ UNCHANGED k4
     ELSE
     LET r == Rec[l]
         exact == IF ExactBN(r.total, r.amount, r.base, r.ppm) THEN "true" ELSE "false"
         inK4 == MulOverflow(r.amount, r.ppm) /\ exact = "true"
     IN IF r.res = exact THEN UNCHANGED <<bad, k4>>
        ELSE IF inK4 /\ r.res = "false" THEN k4' = k4 + 1 /\ UNCHANGED bad
        ELSE /\ PrintT(<<"FEEVIOL", l, r.build, r.res, exact>>)
             /\ bad' = bad + 1 /\ UNCHANGED k4
Spec == Init /\ [][Next]_<<l, bad, k4>>
Done == l = N + 1 => PrintT(<<"FEEDONE", N, bad, k4>>)
Accepted == TLCGet("stats").diameter - 1 = N
=============================================================================
