----------------------------- MODULE BlockWatcher -----------------------------
(***************************************************************************)
(* block_watcher.rs (C20): the chain height the plugin uses.               *)
(*   Start          BlockWatcher::start: one poll (getinfo) that must      *)
(*                  succeed, then poll_forever is spawned                  *)
(*   Tick           time passes; when the 60 s sleep of poll_forever ends  *)
(*                  the next getinfo is issued in the same burst           *)
(*   ExecPoll       the node answers getinfo with its current height, or   *)
(*                  with an error                                          *)
(*   DeliverPoll    update_height(result); the loop sleeps again           *)
(*   Notify(h)      block_added notification carrying ANY height (stale,   *)
(*                  repeated, ahead); a lost notification is no step       *)
(*   NodeAdvance    the node's chain grows                                 *)
(* One tick = TickSecs seconds of the code's clock; Interval = 60 / TickSecs*)
(***************************************************************************)
EXTENDS Integers, FiniteSets

CONSTANTS Heights,    \* heights that can occur
          Interval,   \* poll interval in ticks
          MaxClock, MaxFail

VARIABLES known,      \* BlockWatcher.current_height
          nodeH,      \* the node's chain height
          told,       \* every height the plugin has been told so far
          phase,      \* "idle" | "startup" | "sleep" | "poll" | "failed"
          call,       \* [st, res] the getinfo in progress; res = -1: error
          sleepUntil, now, fails,
          lastPolled  \* result of the last successful poll (-1: none yet)
vars == <<known, nodeH, told, phase, call, sleepUntil, now, fails, lastPolled>>

Max2(a, b) == IF a >= b THEN a ELSE b
MaxSet(S) == IF S = {} THEN 0 ELSE CHOOSE x \in S : \A y \in S : x >= y
NoCall == [st |-> "none", res |-> 0]

Init == /\ known = 0 /\ nodeH \in Heights /\ told = {} /\ phase = "idle" /\ call = NoCall
        /\ sleepUntil = 0 /\ now = 0 /\ fails = 0 /\ lastPolled = -1

Start == /\ phase = "idle"
         /\ phase' = "startup" /\ call' = [st |-> "issued", res |-> 0]
         /\ UNCHANGED <<known, nodeH, told, sleepUntil, now, fails, lastPolled>>

ExecPoll(ok) == /\ call.st = "issued"
                /\ ~ok => fails < MaxFail
                /\ call' = [st |-> "executed", res |-> IF ok THEN nodeH ELSE -1]
                /\ fails' = IF ok THEN fails ELSE fails + 1
                /\ UNCHANGED <<known, nodeH, told, phase, sleepUntil, now, lastPolled>>

DeliverPoll ==
  /\ call.st = "executed"
  /\ call' = NoCall
  /\ IF call.res = -1
     THEN /\ phase' = IF phase = "startup" THEN "failed" ELSE "sleep"   \* start() fails / the loop only logs
          /\ UNCHANGED <<known, told, lastPolled>>
     ELSE /\ known' = Max2(known, call.res)
          /\ told' = told \cup {call.res}
          /\ lastPolled' = call.res
          /\ phase' = "sleep"
  /\ sleepUntil' = now + Interval
  /\ UNCHANGED <<nodeH, now, fails>>

Tick == /\ now < MaxClock
        /\ now' = now + 1
        /\ IF phase = "sleep" /\ now + 1 >= sleepUntil
           THEN phase' = "poll" /\ call' = [st |-> "issued", res |-> 0]
           ELSE UNCHANGED <<phase, call>>
        /\ UNCHANGED <<known, nodeH, told, sleepUntil, fails, lastPolled>>

Notify(h) == /\ phase \in {"sleep", "poll"}
             /\ known' = Max2(known, h)
             /\ told' = told \cup {h}
             /\ UNCHANGED <<nodeH, phase, call, sleepUntil, now, fails, lastPolled>>

NodeAdvance(h) == /\ h > nodeH /\ nodeH' = h
                  /\ UNCHANGED <<known, told, phase, call, sleepUntil, now, fails, lastPolled>>

Next == \/ Start \/ ExecPoll(TRUE) \/ ExecPoll(FALSE) \/ DeliverPoll \/ Tick
        \/ \E h \in Heights : Notify(h) \/ NodeAdvance(h)
Spec == Init /\ [][Next]_vars

(* C20 *)
KnownIsMax == known = MaxSet(told)
Monotone == [][known' >= known]_vars
\* the loop never sleeps longer than one interval, and polls as soon as it is over
PollOnTime == phase = "sleep" => now < sleepUntil /\ sleepUntil - now <= Interval
\* whatever the notifications did, after a successful poll the height is at least what the node reported
CaughtUp == lastPolled # -1 => known >= lastPolled
=============================================================================
