------------------------------- MODULE E2eTrace -------------------------------
(***************************************************************************)
(* Judge for runs of the REAL binary (Engine C).                           *)
(* e2e line: the request ids written to the plugin's stdin and every frame *)
(* read from its stdout (split on blank lines by the harness).             *)
(*   - every frame is a complete JSON document, nothing is left over       *)
(*   - every request id is answered exactly once                           *)
(*   - every answer to htlc_accepted is a hook RESULT (continue / fail /   *)
(*     resolve), never a JSON-RPC error (C06, wire half)                   *)
(***************************************************************************)
EXTENDS Integers, Sequences, FiniteSets, Json, IOUtils, TLC
Rec == ndJsonDeserialize(IOEnv.TRACE)
N == Len(Rec)
VARIABLES l
Init == l = 1
Count(fr, id) == Cardinality({k \in 1..Len(fr) : fr[k].id = id /\ fr[k].kind \in {"result", "error"}})
Bad(r) ==
  (IF \A k \in 1..Len(r.frames) : r.frames[k].json THEN {} ELSE {"BrokenFrame"})
  \cup (IF r.leftover = 0 THEN {} ELSE {"PartialFrame"})
  \cup (IF \A k \in 1..Len(r.sent) : Count(r.frames, r.sent[k]) = 1 THEN {} ELSE {"ReplyCount"})
  \cup (IF \A k \in 1..Len(r.frames) : r.frames[k].kind \in {"result", "error"} /\ r.frames[k].id \notin {"\"gm\"", "\"init\""}
              => r.frames[k].id \in {r.sent[j] : j \in 1..Len(r.sent)} THEN {} ELSE {"UnknownId"})
  \cup (IF \A k \in 1..Len(r.frames) : r.frames[k].id \in {r.sent[j] : j \in 1..Len(r.sent)}
              => r.frames[k].kind = "result" /\ r.frames[k].result \in {"continue", "fail", "resolve"} THEN {} ELSE {"NotAHookResult"})
\* scenario expectations (the harness names the answer a request must get, e.g. C15: settled although one part failed)
Expect(r) ==
  IF "expect" \in DOMAIN r
  THEN IF \A k \in 1..Len(r.expect) : \E j \in 1..Len(r.frames) :
             r.frames[j].id = r.expect[k].id /\ r.frames[j].kind = "result" /\ r.frames[j].result = r.expect[k].result
       THEN {} ELSE {"WrongResult"}
  ELSE {}
\* the node was sent at most so many pay commands in the run (C05: a lost reply is no licence to pay again)
PayCount(r) == IF "pay_calls" \in DOMAIN r /\ r.pay_calls > r.pay_calls_max THEN {"PaidAgain"} ELSE {}
\* a measured quantity stays within what the scenario allows (C20: the route delay granted one poll interval after the
\* chain grew unnoticed shows the height in use; a stale height grants more)
Bound(r) == IF "bound" \in DOMAIN r /\ (r.bound.val < 0 \/ r.bound.val > r.bound.max) THEN {"OutOfBound"} ELSE {}
Next == /\ l <= N /\ l' = l + 1
        /\ LET b == Bad(Rec[l]) \cup Expect(Rec[l]) \cup PayCount(Rec[l]) \cup Bound(Rec[l]) IN b # {} => PrintT(<<"E2EVIOL", Rec[l].run, b>>)
Spec == Init /\ [][Next]_l
Accepted == TLCGet("stats").diameter - 1 = N
=============================================================================
