CONSTANTS
  M = 64
  P = 16
  Div = 4
  PreFix = FALSE
SPECIFICATION Spec
INVARIANT Agree
CHECK_DEADLOCK FALSE
