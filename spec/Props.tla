------------------------------- MODULE Props -------------------------------
(***************************************************************************)
(* The listed properties as predicates over ONE STEP of the node           *)
(* (unprimed = before the environment event, primed = after the event and  *)
(* the plugin's complete reaction to it).  Used                            *)
(*  - by Trampoline.tla as action properties [][Cxx]_nodeVars (design),    *)
(*  - by Observer.tla on every line of a trace recorded from the real code.*)
(* An answer is visible as htlc[i].st turning "answered"; an issued RPC    *)
(* call as a member of iss'.                                                *)
(***************************************************************************)
EXTENDS Node

WasSt(i) == IF i \in DOMAIN htlc THEN htlc[i].st ELSE "unsent"
AnsweredNow(i) == i \in DOMAIN htlc' /\ htlc'[i].st = "answered" /\ WasSt(i) # "answered"
AnsNow == {i \in DOMAIN htlc' : AnsweredNow(i)}
Resp(i) == htlc'[i].resp
IsTramp(i) == htlc'[i].cls = "tramp"
KeyOf(i) == htlc'[i].key

PayIss == {c \in iss' : c.kind = "pay"}
LivePost(h) == LiveIn(parts', h)
CompletedPost(h) == \E p \in 1..Len(parts') : parts'[p].hash = h /\ parts'[p].st = "complete"

\* HTLCs delivered in this step that join the set of hash h
Arriving(h) == {i \in DOMAIN htlc' : WasSt(i) = "unsent" /\ htlc'[i].st # "unsent"
                                     /\ htlc'[i].cls = "tramp" /\ htlc'[i].key = h}
\* the set of h is (or becomes in this step) doomed: a rejection was triggered
\* while it was not fully funded
DoomedStep(h) == \/ obs[h].doomed
                 \/ \E i \in Arriving(h) : ~FundedBefore(h) /\ Rejects(htlc'[i], htlc)

\* some HTLC of the set of h triggered a policy rejection (funded or not)
RejectedStep(h) == obs[h].rej \/ \E i \in Arriving(h) : Rejects(htlc'[i], htlc)

---------------------------------------------------------------------------
(* C01  settle only with a preimage of the HTLC's own hash, from a         *)
(*      completed payment of that hash; never pay for a foreign hash       *)
C01 == /\ \A i \in AnsNow : Resp(i).r = "resolve" =>
             /\ Resp(i).key = htlc'[i].hash
             /\ CompletedPost(htlc'[i].hash)
       /\ \A c \in PayIss : \A i \in DOMAIN htlc' :
             htlc'[i].st = "held" /\ htlc'[i].inv = c.inv => htlc'[i].hash = c.hash

(* C02  never fail back while the outgoing payment can succeed             *)
C02 == \A i \in AnsNow : Resp(i).r = "fail" /\ IsTramp(i) =>
          ~LivePost(KeyOf(i)) /\ pay'[KeyOf(i)].run = 0 /\ pay'[KeyOf(i)].iss = 0

(* C03  pay only when covered, right amount, within budget; the counted    *)
(*      HTLCs stay held until the fate is known                            *)
C03pay(c) ==
  LET h == c.hash
      S == HeldIn(htlc', h)
      sum == SumAmt(htlc', S)
      A == IF c.invamt # 0 THEN c.invamt ELSE c.amount
  IN /\ S # {}
     /\ A >= 0
     /\ FeeOK(sum, A)
     /\ c.maxfee >= 0 /\ c.maxfee <= sum - A
     /\ c.invamt # 0 => c.amount = -1
     /\ c.invamt = 0 => \E i \in S : htlc'[i].inv = c.inv /\ htlc'[i].A = c.amount
C03 == /\ \A c \in PayIss : C03pay(c)
       /\ \A i \in AnsNow : IsTramp(i) /\ (pay'[KeyOf(i)].iss > 0 \/ pay'[KeyOf(i)].run > 0)
             => Resp(i).r = "resolve" /\ CompletedPost(KeyOf(i))

(* C04  outgoing expiry safely below the incoming ones                     *)
C04 == \A c \in PayIss :
          LET b == IF obs[c.hash].bound # -1 THEN obs[c.hash].bound
                   ELSE Hi(0, MinExp(htlc', HeldIn(htlc', c.hash)) - height - cfg.sdelta)
          IN /\ c.maxdelay >= 0
             /\ c.maxdelay <= Lo(b, cfg.pdelta)
             /\ ~DoomedStep(c.hash)

(* C05  at most one live attempt per hash; never pay twice                 *)
C05 == \A c \in PayIss : ~Live(c.hash) /\ ~PayInFlight(c.hash)
                         /\ Cardinality({d \in PayIss : d.hash = c.hash}) = 1

(* C06  exactly one response, no panic, no hang                            *)
C06once == \A i \in DOMAIN htlc' :
             i \in DOMAIN htlc /\ htlc[i].st = "answered" /\ htlc'[i].st = "answered"
               => htlc'[i].resp = htlc[i].resp
C06nopanic == panics' = panics
C06wellformed == \A i \in AnsNow : Resp(i).r \in {"continue", "fail", "resolve"}
\* evaluated on "drained" events: everything delivered has been answered
\* (hashes in `frozen` excepted: their environment was stopped on purpose, C14)
AllAnswered(frozen) == \A i \in DOMAIN htlc' : htlc'[i].st = "held" => htlc'[i].key \in frozen
                                                                       \/ htlc'[i].hash \in frozen

(* C07  one resolution for the whole set                                   *)
C07 == \A h \in Hashes :
         LET before == HeldT(h)
             set == before \cup Arriving(h)
         IN /\ (set \cap AnsNow # {} =>
                  /\ set \subseteq AnsNow
                  /\ \A i, j \in set : Resp(i) = Resp(j))
            /\ (DoomedStep(h) =>
                  /\ \A c \in PayIss : c.hash # h
                  /\ \A i \in set \cap AnsNow : ~CompletedPost(h) => Resp(i).r = "fail")

(* C08  write-ahead: the durable record never understates the payment      *)
C08 == /\ \A h \in Hashes : LivePost(h) => ds'[h].st \in {"pending", "succeeded"}
       /\ \A c \in PayIss : ds'[c.hash].st = "pending"
       /\ \A h \in Hashes : ds'[h].st = "free" /\ ds[h].st # "free" => ~Live(h)
       /\ \A h \in Hashes : ds'[h].st = "succeeded" => ds'[h].key = h

(* C11  incomplete sets fail at the MPP timeout: not before, not much later*)
C11upper == \A h \in Hashes : obs'[h].idleSince # -1 => now' - obs'[h].idleSince < cfg.mpp
C11lower == \A i \in AnsNow :
              LET h == KeyOf(i) IN
              IsTramp(i) /\ Resp(i).r = "fail" /\ Resp(i).code = "tramp"
              /\ obs[h].readAt # -1 /\ ~RejectedStep(h) /\ ~obs[h].paid
                => now' - obs[h].readAt >= cfg.mpp
\* a set that times out is answered with temporary_trampoline_failure
C11code == (now' # now) => \A i \in AnsNow : IsTramp(i) => Resp(i).r = "fail" /\ Resp(i).code = "tramp"
C11 == C11upper /\ C11lower /\ C11code

(* C12  (lifecycle part) fee failure carries the configured policy; the    *)
(*      first HTLC of a fresh payment failing the policy tests gets it     *)
BE(n, k) == [j \in 1..k |-> (n \div (256 ^ (k - j))) % 256]
FeeBytes == <<32, 26>> \o BE(cfg.base, 4) \o BE(cfg.ppm, 4) \o BE(cfg.pdelta, 2)
\* the stored state of h is being delivered to the plugin in this very step as absent/free
ReadFreeNow(h) == /\ last'.t = "deliver" /\ last'.c.kind = "listds" /\ last'.c.hash = h
                  /\ last'.res.r = "ok" /\ last'.res.st \in {"absent", "free"}
C12first == \A i \in AnsNow :
              htlc'[i].fb /\ cfg.mpp > 0 /\ (obs[KeyOf(i)].readAt # -1 \/ ReadFreeNow(KeyOf(i))) /\ ~obs[KeyOf(i)].paid
                => Resp(i).r = "fail" /\ Resp(i).code = "fee"
\* ... and is certainly not paid for: no pay request while the HTLC that opened the set and failed the test is held
C12pay == \A c \in PayIss : \A i \in HeldIn(htlc', c.hash) : ~htlc'[i].fb
C12 == C12first /\ C12pay

(* C15  wait_payment: a preimage only from a completed part; 'none' only   *)
(*      if nothing is pending or complete at that moment                   *)
C15 == \A o \in rets' : o.fn = "wp" =>
          /\ (o.r = "none" => ~LivePost(o.hash))
          /\ (o.r = "pre" => o.key = o.hash /\ CompletedPost(o.hash))
(* C16  pay wrapper: success only with a real preimage, failure only final *)
C16 == \A o \in rets' : o.fn = "pay" =>
          /\ (o.r = "ok" => o.key = o.hash /\ CompletedPost(o.hash))
          /\ (o.r = "err" => ~LivePost(o.hash) /\ pay'[o.hash].run = 0)

(* Beyond the listed properties (growth of the specification, DESIGN.md section 12):        *)
(* AUDIT  the per-attempt audit record agrees with ground truth: an attempt is recorded as  *)
(*        succeeded only when a part of the hash is complete and the state record says so,  *)
(*        and as failed only when nothing of the hash is pending or complete                *)
AttChanged(h, a) == a \in DOMAIN att'[h] /\ (a \notin DOMAIN att[h] \/ att[h][a].st # att'[h][a].st)
Audit == \A h \in Hashes : \A a \in DOMAIN att'[h] :
           AttChanged(h, a) =>
             /\ (att'[h][a].st = "ok" => Completed(h) /\ ds[h].st = "succeeded")
             /\ (att'[h][a].st = "failed" => ~Live(h))
             /\ (att'[h][a].st = "open" => ds[h].st = "pending" /\ ds[h].a = a)

(* C13  non-trampoline HTLCs: answered `continue` in the arrival step,     *)
(*      no RPC, nothing else touched                                       *)
C13 == \A i \in DOMAIN htlc' :
         WasSt(i) = "unsent" /\ htlc'[i].st # "unsent" /\ htlc'[i].cls = "cont" =>
           /\ htlc'[i].st = "answered" /\ Resp(i).r = "continue"
           /\ iss' = {}
           /\ AnsNow = {i}
\* self route hint disallowed: failed, not paid (C10)
C10hint == \A i \in DOMAIN htlc' :
         WasSt(i) = "unsent" /\ htlc'[i].st # "unsent" /\ htlc'[i].cls = "failnode" =>
           /\ htlc'[i].st = "answered" /\ Resp(i).r = "fail" /\ Resp(i).code = "node"
           /\ iss' = {}
           /\ AnsNow = {i}

=============================================================================
