//! NodeSim: lightningd as seen by the plugin, the Rust mirror of spec/Node.tla.
//! Ground truth: sendpay parts, running pay commands, datastore with
//! generations and write modes, clock, chain height, outstanding RPC calls.
//! Every call goes issued -> executed -> delivered under scheduler control.
use std::cell::RefCell;
use std::collections::{BTreeMap, HashMap};

use serde_json::{json, Value};
use tokio::sync::oneshot;

use crate::cat;

#[derive(Clone, Debug)]
pub struct RpcErr {
    pub code: Option<i32>,
    pub message: String,
    /// transport-level failure (no JSON-RPC error object)
    pub transport: bool,
}

pub type RpcResult = Result<Value, RpcErr>;

#[derive(Clone, Copy, Debug, PartialEq, Eq)]
pub enum CallSt {
    Issued,
    Running,
    Executed,
    Delivered,
    Dropped,
}

pub struct Call {
    pub id: u64,
    pub method: String,
    pub params: Value,
    /// abstract content (kind, hash, arguments) as written to the trace
    pub abs: Value,
    pub st: CallSt,
    pub result: Option<RpcResult>,
    pub tx: Option<oneshot::Sender<RpcResult>>,
    pub epoch: u32,
    pub lc: u32,
}

#[derive(Clone, Debug)]
pub struct Part {
    pub hash: String,
    pub cmd: u64,
    pub st: &'static str, // "pending" | "complete" | "failed"
    pub code: i32,
}

#[derive(Default)]
pub struct Sim {
    pub getinfo_count: u64,
    pub now: u64,
    pub height: u32,
    pub epoch: u32,
    pub calls: BTreeMap<u64, Call>,
    pub next_call: u64,
    pub parts: Vec<Part>,
    pub store: BTreeMap<Vec<String>, (String, u64)>,
    /// outputs of the burst in progress
    pub out: Vec<Value>,
    pub activity: u64,
    attempt_names: HashMap<String, u32>,
    lc_names: HashMap<String, u32>,
    /// bolt11 string -> invoice index of the running scenario
    pub inv_index: HashMap<String, usize>,
    /// preimage bytes a completing part reveals, per hash name (default: the real one)
    pub wrong_preimage: bool,
}

thread_local! {
    pub static SIM: RefCell<Sim> = RefCell::new(Sim::default());
}

pub fn with<R>(f: impl FnOnce(&mut Sim) -> R) -> R {
    SIM.with(|s| f(&mut s.borrow_mut()))
}

fn mode_abs(m: &str) -> &'static str {
    match m {
        "must-create" => "mc",
        "must-replace" => "mr",
        "create-or-replace" => "cor",
        "must-append" => "ma",
        "create-or-append" => "coa",
        _ => "?",
    }
}

impl Sim {
    pub fn reset(&mut self) {
        *self = Sim::default();
    }

    fn attempt_name(&mut self, id: &str) -> u32 {
        let n = self.attempt_names.len() as u32 + 1;
        *self.attempt_names.entry(id.to_string()).or_insert(n)
    }

    pub fn lc_name(&mut self, task: Option<String>) -> u32 {
        match task {
            None => 0,
            Some(t) => {
                let key = format!("{}:{}", self.epoch, t);
                let n = self.lc_names.len() as u32 + 1;
                *self.lc_names.entry(key).or_insert(n)
            }
        }
    }

    /// Abstract a stored state string.
    pub fn abs_state(&mut self, s: &str) -> Value {
        let v: Value = match serde_json::from_str(s) {
            Ok(v) => v,
            Err(_) => return json!({"st": "unparsable"}),
        };
        if v == json!("Free") {
            return json!({"st": "free"});
        }
        if let Some(p) = v.get("Pending") {
            let a = p.get("attempt_id").and_then(|x| x.as_str()).unwrap_or("");
            let a = self.attempt_name(a);
            // stored wall-clock seconds -> ticks of the virtual clock (epoch 1_000_000)
            let t = p.get("attempt_time_seconds").and_then(|x| x.as_u64()).unwrap_or(0);
            let t = t.saturating_sub(crate::clock::EPOCH_SECS).min(1_000_000);
            return json!({"st": "pending", "a": a, "t": t});
        }
        if let Some(p) = v.get("Succeeded") {
            let key: Vec<u8> = p
                .get("preimage")
                .and_then(|x| x.as_array())
                .map(|a| a.iter().map(|b| b.as_u64().unwrap_or(0) as u8).collect())
                .unwrap_or_default();
            return json!({"st": "succeeded", "key": cat::key_label(&key)});
        }
        json!({"st": "unparsable"})
    }

    fn abs_attempt(&mut self, s: &str) -> Value {
        let v: Value = serde_json::from_str(s).unwrap_or(Value::Null);
        let inv = v
            .get("bolt11")
            .and_then(|x| x.as_str())
            .and_then(|b| self.inv_index.get(b).copied())
            .unwrap_or(0);
        let completed = v.get("completed").and_then(|x| x.as_bool()).unwrap_or(false);
        let success = v.get("success").and_then(|x| x.as_bool()).unwrap_or(false);
        let st = match (completed, success) {
            (false, false) => "open",
            (true, false) => "failed",
            (true, true) => "ok",
            _ => "bad",
        };
        json!({"st": st, "inv": inv, "amount": small(v.get("amount_msat"))})
    }

    /// Abstract content of a call (kind, hash, arguments).
    fn abstract_call(&mut self, method: &str, p: &Value) -> Value {
        match method {
            "datastore" => {
                let key: Vec<String> = p["key"]
                    .as_array()
                    .map(|a| a.iter().map(|x| x.as_str().unwrap_or("").to_string()).collect())
                    .unwrap_or_default();
                let hash = key.get(2).map(|h| cat::hash_name_hex(h)).unwrap_or_default();
                let mode = mode_abs(p["mode"].as_str().unwrap_or("must-create"));
                let gen = p["generation"].as_i64().unwrap_or(-1);
                let s = p["string"].as_str().unwrap_or("");
                if hash == "?" {
                    // a key that does not name a payment hash of the run the way the store is specified to name it
                    json!({"kind":"ds","hash":"?","key":"other","a":0,"mode":mode,"gen":gen,"val":{"st":"other"}})
                } else if key.len() == 4 && key[0] == "trampoline" && key[1] == "payments" && key[3] == "state" {
                    let val = self.abs_state(s);
                    json!({"kind":"ds","hash":hash,"key":"state","a":0,"mode":mode,"gen":gen,"val":val})
                } else if key.len() == 5 && key[0] == "trampoline" && key[1] == "payments" && key[3] == "attempts" {
                    let a = self.attempt_name(&key[4]);
                    let val = self.abs_attempt(s);
                    json!({"kind":"ds","hash":hash,"key":"att","a":a,"mode":mode,"gen":gen,"val":val})
                } else {
                    json!({"kind":"ds","hash":"?","key":"other","a":0,"mode":mode,"gen":gen,"val":{"st":"other"}})
                }
            }
            "listdatastore" => {
                let key: Vec<String> = p["key"]
                    .as_array()
                    .map(|a| a.iter().map(|x| x.as_str().unwrap_or("").to_string()).collect())
                    .unwrap_or_default();
                let hash = key.get(2).map(|h| cat::hash_name_hex(h)).unwrap_or_default();
                let k = if key.len() == 4 && key[3] == "state" && hash != "?" { "state" } else { "other" };
                json!({"kind":"listds","hash":hash,"key":k})
            }
            "listsendpays" => {
                let hash = p["payment_hash"].as_str().map(cat::hash_name_hex).unwrap_or_default();
                let status = p["status"].as_str().unwrap_or("all").to_string();
                json!({"kind":"lists","hash":hash,"status":status})
            }
            "waitsendpay" => {
                let hash = p["payment_hash"].as_str().map(cat::hash_name_hex).unwrap_or_default();
                let part = self.find_part(&hash, p["groupid"].as_u64(), p["partid"].as_u64().unwrap_or(0));
                let known = part >= 1;
                // timeout: seconds after which the node answers code 200 although the part is still pending (-1: none)
                json!({"kind":"wait","hash":hash,"part": if known { part } else { 0 },
                       "timeout": p["timeout"].as_i64().unwrap_or(-1), "at": self.now})
            }
            "pay" => {
                let b = p["bolt11"].as_str().unwrap_or("");
                let inv = self.inv_index.get(b).copied().unwrap_or(0);
                // (a string that only parses after case folding still names its hash: what is paid is then known)
                let hash = b
                    .parse::<lightning_invoice::Bolt11Invoice>()
                    .or_else(|_| b.to_lowercase().parse::<lightning_invoice::Bolt11Invoice>())
                    .map(|i| {
                        use secp256k1::hashes::Hash;
                        cat::hash_name(&i.payment_hash().to_byte_array())
                    })
                    .unwrap_or_else(|_| String::from("?"));
                json!({"kind":"pay","hash":hash,"inv":inv,
                       "amount": if p["amount_msat"].is_null() { json!(-1) } else { small(p.get("amount_msat")) },
                       "maxfee": small(p.get("maxfee")),
                       "maxdelay": small(p.get("maxdelay")),
                       "retry": small(p.get("retry_for")),
                       "label": !p["label"].is_null(),
                       "risk": !p["riskfactor"].is_null(),
                       "other": !(p["maxfeepercent"].is_null() && p["exemptfee"].is_null()
                                  && p["partial_msat"].is_null() && p["exclude"].is_null())})
            }
            "getinfo" => json!({"kind":"getinfo","hash":""}),
            m => json!({"kind": format!("other:{}", m), "hash":""}),
        }
    }

    /// The plugin issues an RPC call.
    pub fn submit(&mut self, method: &str, params: Value, task: Option<String>) -> oneshot::Receiver<RpcResult> {
        let (tx, rx) = oneshot::channel();
        self.next_call += 1;
        let id = self.next_call;
        let abs = self.abstract_call(method, &params);
        let lc = self.lc_name(task);
        let mut item = abs.clone();
        item["o"] = json!("issue");
        item["call"] = json!(id);
        item["lc"] = json!(lc);
        self.out.push(item);
        self.activity += 1;
        self.calls.insert(
            id,
            Call {
                id,
                method: method.to_string(),
                params,
                abs,
                st: CallSt::Issued,
                result: None,
                tx: Some(tx),
                epoch: self.epoch,
                lc,
            },
        );
        rx
    }

    pub fn live(&self, hash: &str) -> bool {
        self.parts.iter().any(|p| p.hash == hash && p.st != "failed")
    }
    pub fn completed(&self, hash: &str) -> bool {
        self.parts.iter().any(|p| p.hash == hash && p.st == "complete")
    }
    pub fn pay_running(&self, hash: &str) -> bool {
        self.calls
            .values()
            .any(|c| c.method == "pay" && c.st == CallSt::Running && c.abs["hash"] == hash)
    }

    /// Part ids as lightningd numbers them: per group (pay command), starting at 0.
    fn local_partid(&self, idx: usize) -> u64 {
        let g = self.parts[idx].cmd;
        self.parts[..idx].iter().filter(|p| p.cmd == g).count() as u64
    }

    /// The part a (groupid, partid) pair of a request names (1-based index), 0 if there is none.
    fn find_part(&self, hash: &str, group: Option<u64>, partid: u64) -> u64 {
        for idx in 0..self.parts.len() {
            if self.parts[idx].hash == hash && Some(self.parts[idx].cmd) == group && self.local_partid(idx) == partid {
                return idx as u64 + 1;
            }
        }
        0
    }

    fn part_json(&self, idx: usize) -> Value {
        let p = &self.parts[idx];
        let k = cat::hash_index(&p.hash);
        let mut v = json!({
            "created_index": idx + 1,
            "id": idx + 1,
            "groupid": p.cmd,
            "partid": self.local_partid(idx),
            "payment_hash": hex::encode(secp256k1::hashes::Hash::to_byte_array(cat::hash_of(k))),
            "status": p.st,
            "amount_sent_msat": 1,
            "created_at": 1,
        });
        if let Some(l) = self.part_label(idx) {
            v["label"] = json!(l);
        }
        if self.local_partid(idx) == 0 {
            // lightningd leaves the field out for part 0
            v.as_object_mut().unwrap().remove("partid");
        }
        if p.st == "complete" {
            let mut pre = cat::preimage(k);
            if self.wrong_preimage {
                pre[5] ^= 1;
            }
            v["payment_preimage"] = json!(hex::encode(pre));
        }
        v
    }

    /// Can this call be executed now?  (`waitsendpay` blocks while the part is pending.)
    pub fn exec_enabled(&self, id: u64) -> bool {
        match self.calls.get(&id) {
            Some(c) if c.st == CallSt::Issued => {
                if c.method == "waitsendpay" {
                    let part = c.abs["part"].as_u64().unwrap_or(0) as usize;
                    let to = c.abs["timeout"].as_i64().unwrap_or(-1);
                    let at = c.abs["at"].as_u64().unwrap_or(0);
                    part == 0 || self.parts[part - 1].st != "pending" || (to >= 0 && self.now >= at + to as u64)
                } else {
                    true
                }
            }
            _ => false,
        }
    }

    /// The node executes call `id`.  `fault`: "none" | "reject" (not applied,
    /// error) | "lost" (applied, error reported) | "error" (reads: error).
    /// Returns the abstract result for the trace.
    pub fn exec(&mut self, id: u64, fault: &str) -> Value {
        let (method, params, abs) = {
            let c = self.calls.get(&id).expect("exec: unknown call");
            (c.method.clone(), c.params.clone(), c.abs.clone())
        };
        let fault_err = RpcErr { code: Some(-1), message: String::from("injected fault"), transport: false };
        let mut st = CallSt::Executed;
        let (result, absres): (RpcResult, Value) = match method.as_str() {
            "listdatastore" => {
                if fault == "error" {
                    (Err(fault_err), json!({"r":"error"}))
                } else {
                    let key: Vec<String> = params["key"].as_array().map(|a| a.iter().map(|x| x.as_str().unwrap_or("").to_string()).collect()).unwrap_or_default();
                    let modelled = abs["key"] == "state";
                    match self.store.get(&key).cloned() {
                        // the plugin gets what is stored; the model only knows the state keys (a read of any other key,
                        // e.g. of an attempt record, is abstractly "absent", as Node.tla says)
                        Some((s, g)) if !modelled => (Ok(json!({"datastore":[{"key":key,"generation":g,"string":s}]})), json!({"r":"ok","st":"absent","gen":0})),
                        Some((s, g)) => {
                            let mut a = self.abs_state(&s);
                            a["gen"] = json!(g);
                            a["r"] = json!("ok");
                            (Ok(json!({"datastore":[{"key":key,"generation":g,"string":s}]})), a)
                        }
                        None => (Ok(json!({"datastore":[]})), json!({"r":"ok","st":"absent","gen":0})),
                    }
                }
            }
            "datastore" => {
                let key: Vec<String> = params["key"].as_array().map(|a| a.iter().map(|x| x.as_str().unwrap_or("").to_string()).collect()).unwrap_or_default();
                let mode = params["mode"].as_str().unwrap_or("must-create");
                let gen = params["generation"].as_u64();
                let s = params["string"].as_str().unwrap_or("").to_string();
                let cur = self.store.get(&key).cloned();
                let err = |code: i32, m: &str| RpcErr { code: Some(code), message: m.to_string(), transport: false };
                // the append modes glue the new text to what is stored
                let s = match (mode, &cur) {
                    ("must-append", Some((old, _))) | ("create-or-append", Some((old, _))) => format!("{}{}", old, s),
                    _ => s,
                };
                let verdict: Result<u64, RpcErr> = match (mode, &cur) {
                    ("must-create", Some(_)) => Err(err(1202, "already exists")),
                    ("must-replace", None) | ("must-append", None) => Err(err(1203, "does not exist")),
                    (_, _) => match (gen, &cur) {
                        (Some(_), None) => Err(err(1203, "does not exist")),
                        (Some(g), Some((_, cg))) if g != *cg => Err(err(1204, "generation is different")),
                        (_, Some((_, cg))) => Ok(cg + 1),
                        (_, None) => Ok(0),
                    },
                };
                if abs["key"] == "other" {
                    // a key the model does not know: the node does what it does, the abstract result is constant
                    let res = match &verdict {
                        Ok(newgen) => {
                            self.store.insert(key.clone(), (s.clone(), *newgen));
                            Ok(json!({"key":key,"generation":newgen,"string":s}))
                        }
                        Err(e) => Err(e.clone()),
                    };
                    let c = self.calls.get_mut(&id).unwrap();
                    c.st = st;
                    c.result = Some(res);
                    return json!({"r":"ok","applied":true,"gen":0});
                }
                match verdict {
                    Ok(newgen) => {
                        let absgen = newgen;
                        if fault == "reject" {
                            (Err(fault_err), json!({"r":"fault","applied":false}))
                        } else {
                            self.store.insert(key.clone(), (s.clone(), newgen));
                            if fault == "lost" {
                                (Err(fault_err), json!({"r":"fault","applied":true,"gen":absgen}))
                            } else {
                                (Ok(json!({"key":key,"generation":newgen,"string":s})), json!({"r":"ok","applied":true,"gen":absgen}))
                            }
                        }
                    }
                    Err(e) => (Err(e), json!({"r":"refused","applied":false})),
                }
            }
            "listsendpays" => {
                if fault == "error" {
                    (Err(fault_err), json!({"r":"error"}))
                } else {
                    let hash = abs["hash"].as_str().unwrap_or("").to_string();
                    let status = abs["status"].as_str().unwrap_or("all").to_string();
                    let idx: Vec<usize> = (0..self.parts.len())
                        .filter(|i| self.parts[*i].hash == hash && (status == "all" || self.parts[*i].st == status))
                        .collect();
                    let pays: Vec<Value> = idx.iter().map(|i| self.part_json(*i)).collect();
                    let names: Vec<usize> = idx.iter().map(|i| i + 1).collect();
                    (Ok(json!({"payments": pays})), json!({"r":"ok","parts":names}))
                }
            }
            "waitsendpay" => {
                let part = abs["part"].as_u64().unwrap_or(0) as usize;
                if fault == "error" {
                    (Err(fault_err), json!({"r":"error"}))
                } else if fault == "timeout" {
                    (Err(RpcErr { code: Some(200), message: String::from("Timed out while waiting"), transport: false }), json!({"r":"error"}))
                } else if fault == "transport" {
                    (Err(RpcErr { code: None, message: String::from("connection reset"), transport: true }), json!({"r":"error"}))
                } else if part == 0 {
                    (Err(RpcErr { code: Some(208), message: String::from("Never attempted payment part"), transport: false }), json!({"r":"code","code":208}))
                } else {
                    let p = self.parts[part - 1].clone();
                    match p.st {
                        "complete" => (Ok(self.part_json(part - 1)), json!({"r":"complete"})),
                        "failed" => (Err(RpcErr { code: Some(p.code), message: String::from("part failed"), transport: false }), json!({"r":"code","code":p.code})),
                        // the caller asked for a timeout and it has passed: the part is still pending
                        _ => (Err(RpcErr { code: Some(200), message: String::from("Timed out while waiting"), transport: false }), json!({"r":"code","code":200})),
                    }
                }
            }
            "pay" => {
                st = CallSt::Running;
                (Err(RpcErr { code: None, message: String::from("unset"), transport: true }), json!({"r":"running"}))
            }
            "getinfo" => {
                if fault == "error" {
                    (Err(fault_err), json!({"r":"error"}))
                } else {
                    // a node that is still syncing says so next to the height it knows: every second reply carries
                    // one of the two documented warnings
                    self.getinfo_count += 1;
                    let mut info = json!({
                        "id": cat::local_pubkey().to_string(),
                        "alias": "verif", "color": "000000", "num_peers": 0,
                        "num_pending_channels": 0, "num_active_channels": 0, "num_inactive_channels": 0,
                        "version": "v24.05", "blockheight": self.height, "network": "regtest",
                        "fees_collected_msat": 0, "lightning-dir": "/tmp/l", "address": [], "binding": [],
                    });
                    if self.getinfo_count % 4 == 2 {
                        info["warning_lightningd_sync"] = json!("Still loading latest blocks from bitcoind.");
                    } else if self.getinfo_count % 4 == 0 {
                        info["warning_bitcoind_sync"] = json!("Bitcoind is not up-to-date with network.");
                    }
                    (Ok(info), json!({"r":"ok","height": self.height}))
                }
            }
            _ => (Err(RpcErr { code: Some(-32601), message: String::from("unknown method"), transport: false }), json!({"r":"unknown"})),
        };
        let c = self.calls.get_mut(&id).unwrap();
        c.st = st;
        if st == CallSt::Executed {
            c.result = Some(result);
        }
        absres
    }

    /// A running pay command creates one more part.  Returns the part index.
    pub fn pay_part(&mut self, cmd: u64) -> usize {
        let hash = self.calls[&cmd].abs["hash"].as_str().unwrap_or("?").to_string();
        self.parts.push(Part { hash, cmd, st: "pending", code: 0 });
        self.parts.len()
    }

    /// A part that exists without a running command (left by an earlier attempt).
    pub fn orphan_part(&mut self, hash: &str) -> usize {
        // left-over parts can stem from different earlier attempts: alternate between two group ids
        let group = 1000 + (self.parts.len() as u64 % 2);
        self.parts.push(Part { hash: hash.to_string(), cmd: group, st: "pending", code: 0 });
        self.parts.len()
    }

    /// Label lightningd reports for a part: parts of a pay command of this run carry the label the command was given;
    /// left-over parts carry none, the plugin's own kind of label, or somebody else's.
    fn part_label(&self, idx: usize) -> Option<String> {
        let g = self.parts[idx].cmd;
        if g >= 1000 {
            return match idx % 3 {
                0 => None,
                1 => Some(String::from("trampoline-left-over")),
                _ => Some(String::from("manual-payment")),
            };
        }
        self.calls.get(&g).and_then(|c| c.params["label"].as_str().map(|s| s.to_string()))
    }

    pub fn part_done(&mut self, part: usize, how: &str, code: i32) {
        let p = &mut self.parts[part - 1];
        assert_eq!(p.st, "pending");
        p.st = if how == "complete" { "complete" } else { "failed" };
        p.code = code;
    }

    /// The pay command ends.  outcome: "complete" | "pending" | "failed_warn" |
    /// "failed" | "error" | "pending_nopre" (pending, reply lacks the preimage field).
    pub fn pay_return(&mut self, cmd: u64, outcome: &str) {
        let hash = self.calls[&cmd].abs["hash"].as_str().unwrap_or("?").to_string();
        let k = cat::hash_index(&hash);
        let mut pre = cat::preimage(k);
        if self.wrong_preimage {
            pre[5] ^= 1;
        }
        let nparts = self.parts.iter().filter(|p| p.cmd == cmd).count();
        // (what the node reports as sent counts completed parts only)
        let sent = self.parts.iter().filter(|p| p.cmd == cmd && p.st == "complete").count();
        let base = |status: &str, pre: String| {
            json!({
                "destination": cat::payee_pub(1).to_string(),
                "payment_hash": hex::encode(secp256k1::hashes::Hash::to_byte_array(cat::hash_of(k))),
                "created_at": 1.0, "parts": nparts, "amount_msat": 1, "amount_sent_msat": sent,
                "payment_preimage": pre, "status": status,
            })
        };
        let res: RpcResult = match outcome {
            "complete" => Ok(base("complete", hex::encode(pre))),
            "pending" => Ok(base("pending", "00".repeat(32))),
            "failed" => Ok(base("failed", "00".repeat(32))),
            "failed_warn" => {
                let mut v = base("failed", "00".repeat(32));
                v["warning_partial_completion"] = json!("Some parts of the payment are not yet completed");
                Ok(v)
            }
            "pending_nopre" => {
                let mut v = base("pending", String::new());
                v.as_object_mut().unwrap().remove("payment_preimage");
                Ok(v)
            }
            // the reply is lost at transport level / arrives as an error object without a code
            "transport" => Err(RpcErr { code: None, message: String::from("connection closed"), transport: true }),
            "nocode" => Err(RpcErr { code: None, message: String::from("error without code"), transport: false }),
            // negative codes: -1 is lightningd's catch-all, -4 what the caller gets when the pay plugin dies mid-payment;
            // neither says anything about the parts already sent
            "error_neg" => Err(RpcErr { code: Some(if cmd % 2 == 0 { -1 } else { -4 }), message: String::from("plugin terminated before replying to RPC call"), transport: false }),
            _ => Err(RpcErr { code: Some(210), message: String::from("Ran out of routes to try"), transport: false }),
        };
        let c = self.calls.get_mut(&cmd).unwrap();
        assert_eq!(c.st, CallSt::Running);
        c.st = CallSt::Executed;
        c.result = Some(res);
    }

    /// Hand the executed result to the plugin (the caller settles afterwards).
    pub fn deliver(&mut self, id: u64) -> bool {
        let c = self.calls.get_mut(&id).expect("deliver: unknown call");
        assert_eq!(c.st, CallSt::Executed);
        c.st = CallSt::Delivered;
        let res = c.result.take().unwrap();
        match c.tx.take() {
            Some(tx) => tx.send(res).is_ok(),
            None => false,
        }
    }

    /// Calls whose future the plugin has dropped (e.g. the other waits when
    /// wait_payment returned early).
    pub fn reap_dropped(&mut self) {
        let mut dropped = Vec::new();
        for c in self.calls.values_mut() {
            if matches!(c.st, CallSt::Issued | CallSt::Running | CallSt::Executed) {
                if let Some(tx) = &c.tx {
                    if tx.is_closed() {
                        c.st = CallSt::Dropped;
                        c.tx = None;
                        dropped.push(c.id);
                    }
                }
            }
        }
        for id in dropped {
            self.out.push(json!({"o":"drop","call":id}));
        }
    }

    /// Whole-node crash (E7): running pay commands and unexecuted calls are lost.
    pub fn crash(&mut self) {
        for c in self.calls.values_mut() {
            if matches!(c.st, CallSt::Issued | CallSt::Running | CallSt::Executed) {
                c.st = CallSt::Dropped;
            }
            c.tx = None;
        }
        self.epoch += 1;
        self.out.clear();
    }

    pub fn outstanding(&self) -> Vec<u64> {
        self.calls
            .values()
            .filter(|c| matches!(c.st, CallSt::Issued | CallSt::Running | CallSt::Executed))
            .map(|c| c.id)
            .collect()
    }
}

/// JSON number that fits TLC's 32-bit integers, else -2 (lifecycle traces keep
/// amounts small).  Accepts plain numbers and cln-rpc's "<n>msat" strings.
fn small(v: Option<&Value>) -> Value {
    let n = match v {
        Some(Value::Number(n)) => n.as_u64(),
        Some(Value::String(s)) => s.trim_end_matches("msat").parse::<u64>().ok(),
        _ => None,
    };
    match n {
        Some(n) if n <= 2_000_000_000 => json!(n),
        Some(_) => json!(-2),
        None => json!(-1),
    }
}
