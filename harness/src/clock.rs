//! Virtual wall clock.  The plugin reads `SystemTime::now()` for attempt ids
//! and for the remaining MPP time after a restart.  This binary defines
//! `clock_gettime` itself (it takes precedence over libc's at link time) and
//! answers CLOCK_REALTIME from a process-wide virtual clock; every other clock
//! id is forwarded to the kernel with a raw syscall.
use std::sync::atomic::{AtomicBool, AtomicU64, Ordering};

/// Virtual wall-clock second that corresponds to tick 0.
pub const EPOCH_SECS: u64 = 1_000_000;

static VIRTUAL: AtomicBool = AtomicBool::new(false);
static WALL_NS: AtomicU64 = AtomicU64::new(0);

/// Switch CLOCK_REALTIME to virtual time starting at `secs`.
pub fn enable(secs: u64) {
    WALL_NS.store(secs * 1_000_000_000, Ordering::SeqCst);
    VIRTUAL.store(true, Ordering::SeqCst);
}

pub fn disable() {
    VIRTUAL.store(false, Ordering::SeqCst);
}

/// Set the virtual wall clock to `secs` seconds (sub-second part restarts at 0).
pub fn set_secs(secs: u64) {
    WALL_NS.store(secs * 1_000_000_000, Ordering::SeqCst);
}

pub fn secs() -> u64 {
    WALL_NS.load(Ordering::SeqCst) / 1_000_000_000
}

#[no_mangle]
pub unsafe extern "C" fn clock_gettime(clk: libc::clockid_t, ts: *mut libc::timespec) -> libc::c_int {
    if clk == libc::CLOCK_REALTIME && VIRTUAL.load(Ordering::SeqCst) {
        // +1 ns per read: attempt ids (nanosecond timestamps) stay unique.
        let ns = WALL_NS.fetch_add(1, Ordering::SeqCst) + 1;
        (*ts).tv_sec = (ns / 1_000_000_000) as libc::time_t;
        (*ts).tv_nsec = (ns % 1_000_000_000) as libc::c_long;
        return 0;
    }
    libc::syscall(libc::SYS_clock_gettime, clk as libc::c_long, ts) as libc::c_int
}
