//! Engine A-blk: the real BlockWatcher (start, poll_forever, new_block) against
//! NodeSim's getinfo, on the paused runtime.  One tick = 20 virtual seconds
//! (POLL_INTERVAL = 60 s = 3 ticks).
use std::sync::{Arc, Mutex as StdMutex};
use std::time::Duration;

use serde::Deserialize;
use serde_json::{json, Value};

use crate::block_watcher::{BlockProvider, BlockWatcher};
use crate::messages::BlockAdded;
use crate::rpc::Rpc;
use crate::sim::{self, CallSt};
use crate::util::Rng;

pub const TICK_SECS: u64 = 20;

#[derive(Clone, Debug, Deserialize)]
pub struct BlkJob {
    pub run: u64,
    pub h0: u32,
    #[serde(default)]
    pub sched: Option<Vec<Value>>,
    #[serde(default)]
    pub seed: u64,
    #[serde(default)]
    pub steps: usize,
    #[serde(default)]
    pub heights: Vec<u32>,
}

async fn settle() {
    let mut last = sim::with(|s| s.activity);
    let mut stable = 0;
    while stable < 40 {
        tokio::task::yield_now().await;
        let a = sim::with(|s| s.activity);
        if a == last {
            stable += 1;
        } else {
            stable = 0;
            last = a;
        }
    }
}

pub fn run_job(job: BlkJob) -> Vec<String> {
    sim::with(|s| {
        s.reset();
        s.height = job.h0;
    });
    let rt = tokio::runtime::Builder::new_current_thread().enable_time().start_paused(true).build().expect("harness: runtime");
    let lines = rt.block_on(async move {
        let mut lines: Vec<String> = vec![json!({"ev":"reset","run":job.run,"h0":job.h0}).to_string()];
        let slot: Arc<StdMutex<Option<Arc<BlockWatcher>>>> = Arc::new(StdMutex::new(None));
        let started: Arc<StdMutex<&'static str>> = Arc::new(StdMutex::new("no"));
        let (_tx, rx) = tokio::sync::mpsc::channel::<()>(1);
        let mut rx = Some(rx);
        let mut rng = Rng::new(job.seed ^ job.run);
        let mut cursor = 0usize;
        let mut nsteps = 0usize;
        loop {
            // choose the next step
            let step: Value = if let Some(s) = &job.sched {
                if cursor >= s.len() {
                    break;
                }
                cursor += 1;
                s[cursor - 1].clone()
            } else {
                if nsteps >= job.steps {
                    break;
                }
                nsteps += 1;
                let st = *started.lock().unwrap();
                let mut en: Vec<Value> = Vec::new();
                if st == "no" {
                    en.push(json!({"a":"start"}));
                }
                let calls: Vec<(u64, CallSt)> = sim::with(|s| s.calls.values().map(|c| (c.id, c.st)).collect());
                for (_id, cs) in &calls {
                    match cs {
                        CallSt::Issued => {
                            en.push(json!({"a":"exec","ok":true}));
                            en.push(json!({"a":"exec","ok":true}));
                            en.push(json!({"a":"exec","ok":false}));
                        }
                        CallSt::Executed => {
                            en.push(json!({"a":"deliver"}));
                            en.push(json!({"a":"deliver"}));
                        }
                        _ => {}
                    }
                }
                if st == "ok" {
                    for _ in 0..2 {
                        let h = job.heights[rng.below(job.heights.len() as u64) as usize];
                        en.push(json!({"a":"notify","h":h}));
                    }
                }
                if st != "no" {
                    en.push(json!({"a":"tick"}));
                    en.push(json!({"a":"tick"}));
                    let cur = sim::with(|s| s.height);
                    let higher: Vec<u32> = job.heights.iter().copied().filter(|h| *h > cur).collect();
                    if !higher.is_empty() {
                        en.push(json!({"a":"nodeh","h":higher[rng.below(higher.len() as u64) as usize]}));
                    }
                }
                en[rng.below(en.len() as u64) as usize].clone()
            };
            let before_calls = sim::with(|s| s.next_call);
            let a = step["a"].as_str().unwrap_or("").to_string();
            let mut ev = json!({"ev": a});
            let mut applied = true;
            match a.as_str() {
                "start" => {
                    if *started.lock().unwrap() == "no" {
                        *started.lock().unwrap() = "pending";
                        let slot2 = Arc::clone(&slot);
                        let st2 = Arc::clone(&started);
                        let rxx = rx.take().unwrap();
                        tokio::spawn(async move {
                            let mut bw = BlockWatcher::new(Arc::new(Rpc::new(String::new())));
                            match bw.start(rxx).await {
                                Ok(_join) => {
                                    *slot2.lock().unwrap() = Some(Arc::new(bw));
                                    *st2.lock().unwrap() = "ok";
                                }
                                Err(_) => *st2.lock().unwrap() = "err",
                            }
                            sim::with(|s| s.activity += 1);
                        });
                        settle().await;
                    } else {
                        applied = false;
                    }
                }
                "exec" => {
                    let id = sim::with(|s| s.calls.values().find(|c| c.st == CallSt::Issued).map(|c| c.id));
                    match id {
                        Some(id) => {
                            let ok = step["ok"].as_bool().unwrap_or(true);
                            let res = sim::with(|s| s.exec(id, if ok { "none" } else { "error" }));
                            ev["ok"] = json!(ok);
                            ev["res"] = json!(if ok { res["height"].as_i64().unwrap_or(-1) } else { -1 });
                        }
                        None => applied = false,
                    }
                }
                "deliver" => {
                    let id = sim::with(|s| s.calls.values().find(|c| c.st == CallSt::Executed).map(|c| c.id));
                    match id {
                        Some(id) => {
                            sim::with(|s| s.deliver(id));
                            settle().await;
                        }
                        None => applied = false,
                    }
                }
                "tick" => {
                    sim::with(|s| s.now += 1);
                    tokio::time::advance(Duration::from_secs(TICK_SECS)).await;
                    settle().await;
                }
                "notify" => {
                    let bw = slot.lock().unwrap().clone();
                    match bw {
                        Some(bw) => {
                            let h = step["h"].as_u64().unwrap_or(0) as u32;
                            ev["h"] = json!(h);
                            { let blk = BlockAdded { height: h }; crate::await_if_future!(bw.new_block(&blk)); }
                            settle().await;
                        }
                        None => applied = false,
                    }
                }
                "nodeh" => {
                    let h = step["h"].as_u64().unwrap_or(0) as u32;
                    if h > sim::with(|s| s.height) {
                        sim::with(|s| s.height = h);
                        ev["h"] = json!(h);
                    } else {
                        applied = false;
                    }
                }
                _ => applied = false,
            }
            if !applied {
                continue;
            }
            let bw = slot.lock().unwrap().clone();
            let known = match bw {
                Some(bw) => bw.current_height().await as i64,
                None => -1,
            };
            ev["known"] = json!(known);
            ev["issued"] = json!(sim::with(|s| s.next_call) - before_calls);
            ev["started"] = json!(*started.lock().unwrap());
            sim::with(|s| s.out.clear());
            lines.push(ev.to_string());
        }
        lines.push(json!({"ev":"end","run":job.run}).to_string());
        lines
    });
    lines
}

/// Concurrency stress (real threads): height sources hitting the watcher at the same time.  Each round calls
/// new_block concurrently with several heights on a multi-thread runtime and then reads the height.  One `batch`
/// trace line per round; the judge only knows "these heights were told, this is the height afterwards".
pub fn run_mt(run: u64, rounds: u64, workers: usize, seed: u64) -> Vec<String> {
    let rt = tokio::runtime::Builder::new_multi_thread().worker_threads(workers).enable_time().build().expect("harness: runtime");
    let mut lines = vec![json!({"ev":"reset","run":run,"h0":0}).to_string()];
    let bw = Arc::new(BlockWatcher::new(Arc::new(Rpc::new(String::new()))));
    let mut rng = Rng::new(seed ^ 0x5151);
    let mut h: u32 = 10;
    let out: Vec<String> = rt.block_on(async {
        let mut v = Vec::new();
        let mut spent = std::time::Duration::ZERO;
        for _ in 0..rounds {
            let k = 2 + rng.below(3) as u32;
            // strictly increasing candidates above the current height, delivered concurrently in a shuffled order
            let mut hs: Vec<u32> = (1..=k).map(|d| h + d).collect();
            if rng.below(4) == 0 {
                hs.push(h.saturating_sub(1 + rng.below(3) as u32)); // a stale one
            }
            for i in (1..hs.len()).rev() {
                hs.swap(i, rng.below(i as u64 + 1) as usize);
            }
            let mut js = Vec::new();
            // the calls start together: each task announces itself and spins (bounded) until all have arrived, so
            // that they are really inside new_block at the same time whatever the load of the machine is
            let n = hs.len() as u32;
            let arrived = Arc::new(std::sync::atomic::AtomicU32::new(0));
            let gate = n as usize <= workers;
            // on a busy machine the others may need a few scheduler quanta to arrive: wait up to 20 ms for them, as long
            // as the rounds of this job have not used up 20 s in total
            let patience = if spent < std::time::Duration::from_secs(20) { std::time::Duration::from_millis(20) } else { std::time::Duration::from_micros(300) };
            let r0 = std::time::Instant::now();
            for x in hs.clone() {
                let b = Arc::clone(&bw);
                let arrived = Arc::clone(&arrived);
                js.push(tokio::spawn(async move {
                    if gate {
                        arrived.fetch_add(1, std::sync::atomic::Ordering::SeqCst);
                        let t0 = std::time::Instant::now();
                        while arrived.load(std::sync::atomic::Ordering::SeqCst) < n && t0.elapsed() < patience {
                            std::hint::spin_loop();
                        }
                    }
                    let blk = BlockAdded { height: x };
                    crate::await_if_future!(b.new_block(&blk))
                }));
            }
            for j in js {
                let _ = j.await;
            }
            spent += r0.elapsed();
            let known = bw.current_height().await;
            v.push(json!({"ev":"batch","hs":hs,"known":known,"issued":0,"started":"ok"}).to_string());
            h += k;
        }
        v
    });
    lines.extend(out);
    lines.push(json!({"ev":"end","run":run}).to_string());
    lines
}

pub fn run_file(inp: &str, out: &str) {
    use std::io::{BufRead, Write};
    crate::driver::install_panic_hook();
    let mut w = std::io::BufWriter::new(std::fs::File::create(out).expect("out"));
    for line in std::io::BufReader::new(std::fs::File::open(inp).expect("in")).lines() {
        let line = line.unwrap();
        if line.trim().is_empty() {
            continue;
        }
        let v: Value = serde_json::from_str(&line).expect("harness: blk job");
        if v["mt"].is_object() {
            let ls = run_mt(v["run"].as_u64().unwrap_or(0), v["mt"]["rounds"].as_u64().unwrap_or(1000),
                            v["mt"]["workers"].as_u64().unwrap_or(4) as usize, v["mt"]["seed"].as_u64().unwrap_or(1));
            for l in ls {
                writeln!(w, "{}", l).unwrap();
            }
            continue;
        }
        let job: BlkJob = serde_json::from_value(v).expect("harness: blk job");
        for l in run_job(job) {
            writeln!(w, "{}", l).unwrap();
        }
    }
    w.flush().unwrap();
}
