//! vfh: conformance harness for breez/trampoline.  Compiles the plugin's
//! modules directly from /repo/src (working tree) and drives them.
#![allow(dead_code, unused_imports, clippy::all)]
use anyhow::Error; // cln_plugin/codec.rs refers to crate::Error

// the plugin's modules, from the repository working tree (see build.rs)
include!(concat!(env!("OUT_DIR"), "/repo_mods.rs"));

mod blk;
mod cat;
mod clock;
mod driver;
mod pure;
mod rpc;
mod sim;
mod util;
mod wire;

use std::io::{BufRead, BufWriter, Write};

fn main() {
    let args: Vec<String> = std::env::args().collect();
    if args.len() < 2 {
        eprintln!("usage: vfh run <jobs.ndjson> <trace.ndjson>");
        std::process::exit(2);
    }
    match args[1].as_str() {
        "run" => {
            driver::install_panic_hook();
            let jobs = std::fs::File::open(&args[2]).expect("jobs file");
            let mut out = BufWriter::new(std::fs::File::create(&args[3]).expect("trace file"));
            let mut n = 0u64;
            let mut div = 0u64;
            for line in std::io::BufReader::new(jobs).lines() {
                let line = line.unwrap();
                if line.trim().is_empty() {
                    continue;
                }
                let job: driver::Job = match serde_json::from_str(&line) {
                    Ok(j) => j,
                    Err(e) => {
                        eprintln!("bad job: {}: {}", e, line);
                        std::process::exit(2);
                    }
                };
                let (lines, d) = driver::run_job(job);
                for l in lines {
                    writeln!(out, "{}", l).unwrap();
                }
                n += 1;
                div += d as u64;
            }
            out.flush().unwrap();
            eprintln!("vfh: {} runs, {} diverged steps", n, div);
        }
        "blk" => blk::run_file(&args[2], &args[3]),
        "mkreq" => {
            // print the htlc_accepted params for every HTLC of a scenario (Engine C builds its requests with this)
            let scen: driver::Scenario = serde_json::from_str(&std::fs::read_to_string(&args[2]).expect("scenario")).expect("scenario json");
            let mut cache = std::collections::HashMap::new();
            let reqs: Vec<serde_json::Value> = scen.htlcs.iter().enumerate()
                .map(|(k, h)| cat::request_json(k as u64 + 1, h, &scen.invs, &mut cache)).collect();
            println!("{}", serde_json::json!({"local": cat::local_pubkey().to_string(), "reqs": reqs,
                "preimages": (1..=cat::MAX_HASHES).map(|k| hex::encode(cat::preimage(k))).collect::<Vec<_>>()}));
        }
        "wire" => wire::run_file(&args[2], &args[3]),
        "fee" => pure::fee(&args[2], &args[3]),
        "tlv" => pure::tlv(&args[2], &args[3]),
        m => {
            eprintln!("unknown mode {}", m);
            std::process::exit(2);
        }
    }
}
