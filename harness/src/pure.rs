//! Engine B: pure functions of the plugin on vectors, under catch_unwind.
use std::io::{BufRead, BufWriter, Write};
use std::panic::{catch_unwind, AssertUnwindSafe};

use serde_json::{json, Value};

use crate::messages::TrampolineRoutingPolicy;

/// little-endian base-10^4 digits (spec/BigNat.tla)
pub fn digits(mut n: u128) -> Vec<u32> {
    let mut v = Vec::new();
    while n > 0 {
        v.push((n % 10000) as u32);
        n /= 10000;
    }
    v
}

fn build_name() -> &'static str {
    // which build is this?  try an overflowing addition
    let r = catch_unwind(|| std::hint::black_box(255u8) + std::hint::black_box(1u8));
    if r.is_err() {
        "checked"
    } else {
        "wrapping"
    }
}

/// `vfh fee <vectors.ndjson> <out.ndjson>`: {"base":u32,"ppm":u32,"total":"dec","amount":"dec"}
pub fn fee(inp: &str, out: &str) {
    std::panic::set_hook(Box::new(|_| {}));
    let mut w = BufWriter::new(std::fs::File::create(out).expect("out"));
    for line in std::io::BufReader::new(std::fs::File::open(inp).expect("in")).lines() {
        let line = line.unwrap();
        if line.trim().is_empty() {
            continue;
        }
        let v: Value = serde_json::from_str(&line).expect("vector");
        if v["kind"] == "enc" {
            // failure-message encoding for an arbitrary policy (C12)
            let pol = TrampolineRoutingPolicy {
                fee_base_msat: v["base"].as_u64().unwrap() as u32,
                fee_proportional_millionths: v["ppm"].as_u64().unwrap() as u32,
                cltv_expiry_delta: v["delta"].as_u64().unwrap() as u16,
            };
            let r = catch_unwind(AssertUnwindSafe(|| {
                crate::messages::HtlcFailReason::TrampolineFeeOrExpiryInsufficient(pol.clone()).encode()
            }));
            let (res, bytes) = match r {
                Ok(b) => ("ok", b),
                Err(_) => ("panic", vec![]),
            };
            let others = [crate::messages::HtlcFailReason::TemporaryNodeFailure.encode(),
                          crate::messages::HtlcFailReason::TemporaryTrampolineFailure.encode()];
            writeln!(w, "{}", json!({"kind":"enc","build": build_name(), "base": digits(pol.fee_base_msat as u128),
                "ppm": digits(pol.fee_proportional_millionths as u128), "delta": digits(pol.cltv_expiry_delta as u128),
                "res": res, "bytes": bytes, "node": others[0], "tramp": others[1]})).unwrap();
            continue;
        }
        let base = v["base"].as_u64().unwrap() as u32;
        let ppm = v["ppm"].as_u64().unwrap() as u32;
        let total: u64 = v["total"].as_str().unwrap().parse().unwrap();
        let amount: u64 = v["amount"].as_str().unwrap().parse().unwrap();
        let pol = TrampolineRoutingPolicy { fee_base_msat: base, fee_proportional_millionths: ppm, cltv_expiry_delta: 40 };
        let r = catch_unwind(AssertUnwindSafe(|| pol.fee_sufficient(total, amount)));
        let res = match r {
            Ok(true) => "true",
            Ok(false) => "false",
            Err(_) => "panic",
        };
        writeln!(w, "{}", json!({"kind":"fee","build": build_name(), "base": digits(base as u128), "ppm": digits(ppm as u128),
            "total": digits(total as u128), "amount": digits(amount as u128), "res": res,
            "dec": [base.to_string(), ppm.to_string(), total.to_string(), amount.to_string()]})).unwrap();
    }
    w.flush().unwrap();
}

use crate::tlv::{FromBytes, ProtoBuf, SerializedTlvStream, TlvEntry, ToBytes};

fn bytes_of(v: &Value) -> Vec<u8> {
    v.as_array().map(|a| a.iter().map(|x| x.as_u64().unwrap_or(0) as u8).collect()).unwrap_or_default()
}

/// records of a decoded stream as JSON.  The stream's fields are private; its
/// derived Debug output lists the entries exactly as decoded.
fn recs_json(s: &SerializedTlvStream) -> Value {
    let d = format!("{:?}", s);
    let mut out = Vec::new();
    let mut rest = d.as_str();
    while let Some(p) = rest.find("TlvEntry { typ: ") {
        rest = &rest[p + 16..];
        let comma = rest.find(',').unwrap();
        let typ: u64 = rest[..comma].trim().parse().expect("harness: typ in Debug output");
        let lb = rest.find('[').unwrap();
        let rb = rest.find(']').unwrap();
        let val: Vec<u8> = rest[lb + 1..rb].split(',').filter(|x| !x.trim().is_empty()).map(|x| x.trim().parse().unwrap()).collect();
        out.push(json!({"typ": typ.to_be_bytes().to_vec(), "val": val}));
        rest = &rest[rb..];
    }
    json!(out)
}

/// `vfh tlv <vectors.ndjson> <out.ndjson>`
pub fn tlv(inp: &str, out: &str) {
    std::panic::set_hook(Box::new(|_| {}));
    let mut w = BufWriter::new(std::fs::File::create(out).expect("out"));
    for line in std::io::BufReader::new(std::fs::File::open(inp).expect("in")).lines() {
        let line = line.unwrap();
        if line.trim().is_empty() {
            continue;
        }
        let mut v: Value = serde_json::from_str(&line).expect("vector");
        v["build"] = json!(build_name());
        let kind = v["kind"].as_str().unwrap_or("").to_string();
        match kind.as_str() {
            "dec" => {
                let b = bytes_of(&v["bytes"]);
                let prefixed = v["entry"] == "prefixed";
                let r = catch_unwind(AssertUnwindSafe(|| {
                    if prefixed {
                        SerializedTlvStream::try_from(b.clone())
                    } else {
                        SerializedTlvStream::from_bytes(b.clone())
                    }
                }));
                match r {
                    Ok(Ok(s)) => {
                        let rj = catch_unwind(AssertUnwindSafe(|| (recs_json(&s), SerializedTlvStream::to_bytes(s.clone()))));
                        match rj {
                            Ok((recs, reenc)) => {
                                v["res"] = json!("ok");
                                v["recs"] = recs;
                                v["reenc"] = json!(reenc);
                            }
                            Err(_) => v["res"] = json!("panic"),
                        }
                    }
                    Ok(Err(_)) => v["res"] = json!("err"),
                    Err(_) => v["res"] = json!("panic"),
                }
            }
            "encdec" => {
                let entries: Vec<TlvEntry> = v["recs"].as_array().unwrap().iter().map(|r| {
                    let t = bytes_of(&r["typ"]);
                    let mut t8 = [0u8; 8];
                    t8.copy_from_slice(&t);
                    TlvEntry { typ: u64::from_be_bytes(t8), value: bytes_of(&r["val"]) }
                }).collect();
                let r = catch_unwind(AssertUnwindSafe(|| {
                    let s = SerializedTlvStream::from(entries.clone());
                    let enc = SerializedTlvStream::to_bytes(s.clone());
                    let dec = SerializedTlvStream::from_bytes(enc.clone());
                    (enc, dec.map(|d| (d == s, recs_json(&d))))
                }));
                match r {
                    Ok((enc, Ok((same, recs)))) => {
                        v["res"] = json!("ok");
                        v["enc"] = json!(enc);
                        v["same"] = json!(same);
                        v["dec"] = recs;
                    }
                    Ok((enc, Err(_))) => {
                        v["res"] = json!("err");
                        v["enc"] = json!(enc);
                    }
                    Err(_) => v["res"] = json!("panic"),
                }
            }
            "tu64" => {
                let b = bytes_of(&v["bytes"]);
                let r = catch_unwind(AssertUnwindSafe(|| {
                    let mut bb: bytes::Bytes = b.clone().into();
                    bb.get_tu64()
                }));
                match r {
                    Ok(Ok(x)) => {
                        v["res"] = json!("ok");
                        v["v8"] = json!(x.to_be_bytes().to_vec());
                    }
                    Ok(Err(_)) => v["res"] = json!("err"),
                    Err(_) => v["res"] = json!("panic"),
                }
            }
            "getrm" => {
                let b = bytes_of(&v["bytes"]);
                let typ = v["typ"].as_u64().unwrap_or(16);
                let r = catch_unwind(AssertUnwindSafe(|| {
                    SerializedTlvStream::from_bytes(b.clone()).map(|mut s| {
                        let got = s.get(typ);
                        s.remove(typ);
                        (got.map(|e| e.value), SerializedTlvStream::to_bytes(s))
                    })
                }));
                match r {
                    Ok(Ok((got, after))) => {
                        v["res"] = json!("ok");
                        v["found"] = json!(got.is_some());
                        v["val"] = json!(got.unwrap_or_default());
                        v["after"] = json!(after);
                    }
                    Ok(Err(_)) => v["res"] = json!("err"),
                    Err(_) => v["res"] = json!("panic"),
                }
            }
            _ => {}
        }
        writeln!(w, "{}", v).unwrap();
    }
    w.flush().unwrap();
}
