//! Engine B: pure functions of the plugin on vectors, under catch_unwind.
use std::io::{BufRead, BufWriter, Write};
use std::panic::{catch_unwind, AssertUnwindSafe};

use serde_json::{json, Value};

use crate::messages::TrampolineRoutingPolicy;

/// little-endian base-10^4 digits (spec/BigNat.tla)
pub fn digits(mut n: u128) -> Vec<u32> {
    let mut v = Vec::new();
    while n > 0 {
        v.push((n % 10000) as u32);
        n /= 10000;
    }
    v
}

fn build_name() -> &'static str {
    // which build is this?  try an overflowing addition
    let r = catch_unwind(|| std::hint::black_box(255u8) + std::hint::black_box(1u8));
    if r.is_err() {
        "checked"
    } else {
        "wrapping"
    }
}

/// `vfh fee <vectors.ndjson> <out.ndjson>`: {"base":u32,"ppm":u32,"total":"dec","amount":"dec"}
pub fn fee(inp: &str, out: &str) {
    std::panic::set_hook(Box::new(|_| {}));
    let mut w = BufWriter::new(std::fs::File::create(out).expect("out"));
    for line in std::io::BufReader::new(std::fs::File::open(inp).expect("in")).lines() {
        let line = line.unwrap();
        if line.trim().is_empty() {
            continue;
        }
        let v: Value = serde_json::from_str(&line).expect("vector");
        if v["kind"] == "enc" {
            // failure-message encoding for an arbitrary policy (C12)
            let pol = TrampolineRoutingPolicy {
                fee_base_msat: v["base"].as_u64().unwrap() as u32,
                fee_proportional_millionths: v["ppm"].as_u64().unwrap() as u32,
                cltv_expiry_delta: v["delta"].as_u64().unwrap() as u16,
            };
            let r = catch_unwind(AssertUnwindSafe(|| {
                crate::messages::HtlcFailReason::TrampolineFeeOrExpiryInsufficient(pol.clone()).encode()
            }));
            let (res, bytes) = match r {
                Ok(b) => ("ok", b),
                Err(_) => ("panic", vec![]),
            };
            let others = [crate::messages::HtlcFailReason::TemporaryNodeFailure.encode(),
                          crate::messages::HtlcFailReason::TemporaryTrampolineFailure.encode()];
            writeln!(w, "{}", json!({"kind":"enc","build": build_name(), "base": digits(pol.fee_base_msat as u128),
                "ppm": digits(pol.fee_proportional_millionths as u128), "delta": digits(pol.cltv_expiry_delta as u128),
                "res": res, "bytes": bytes, "node": others[0], "tramp": others[1]})).unwrap();
            continue;
        }
        let base = v["base"].as_u64().unwrap() as u32;
        let ppm = v["ppm"].as_u64().unwrap() as u32;
        let total: u64 = v["total"].as_str().unwrap().parse().unwrap();
        let amount: u64 = v["amount"].as_str().unwrap().parse().unwrap();
        let pol = TrampolineRoutingPolicy { fee_base_msat: base, fee_proportional_millionths: ppm, cltv_expiry_delta: 40 };
        let r = catch_unwind(AssertUnwindSafe(|| pol.fee_sufficient(total, amount)));
        let res = match r {
            Ok(true) => "true",
            Ok(false) => "false",
            Err(_) => "panic",
        };
        writeln!(w, "{}", json!({"kind":"fee","build": build_name(), "base": digits(base as u128), "ppm": digits(ppm as u128),
            "total": digits(total as u128), "amount": digits(amount as u128), "res": res,
            "dec": [base.to_string(), ppm.to_string(), total.to_string(), amount.to_string()]})).unwrap();
    }
    w.flush().unwrap();
}
