//! Engine A-wire: the vendored cln_plugin Builder -> ConfiguredPlugin ->
//! PluginDriver over in-memory pipes.  The input byte stream is delivered in
//! the chunks the job dictates; the hook handlers finish when the job says so.
use std::cell::RefCell;
use std::collections::BTreeMap;
use std::io::{BufRead, Write};

use serde::Deserialize;
use serde_json::{json, Value};
use tokio::io::{AsyncReadExt, AsyncWriteExt};
use tokio::sync::oneshot;

use crate::cln_plugin::{Builder, Plugin};

#[derive(Clone, Debug, Deserialize)]
pub struct WireJob {
    pub run: u64,
    /// the messages lightningd sends after the handshake: {"kind":"hook"|"notif"|"unknown-notif","id":<json>,"tag":n,"pad":"..."}
    pub msgs: Vec<Value>,
    /// steps: {"a":"chunk","n":bytes} | {"a":"finish","tag":n,"how":"ok"|"err"}
    pub steps: Vec<Value>,
    /// put single newlines / spaces inside the JSON text
    #[serde(default)]
    pub pretty: bool,
    /// capacity of the plugin's stdout pipe in bytes (0 = large); with a small pipe and `slow` the harness reads
    /// the plugin's output only at explicit {"a":"read"} steps, so the plugin's writer is under back-pressure
    #[serde(default)]
    pub outcap: usize,
    #[serde(default)]
    pub slow: bool,
}

thread_local! {
    static PENDING: RefCell<BTreeMap<u64, oneshot::Sender<Result<Value, String>>>> = RefCell::new(BTreeMap::new());
    static INVOKED: RefCell<Vec<Value>> = RefCell::new(Vec::new());
    static ACT: RefCell<u64> = RefCell::new(0);
}

fn act() {
    ACT.with(|a| *a.borrow_mut() += 1);
}

async fn settle() {
    let mut last = ACT.with(|a| *a.borrow());
    let mut stable = 0;
    while stable < 60 {
        tokio::task::yield_now().await;
        let a = ACT.with(|a| *a.borrow());
        if a == last {
            stable += 1;
        } else {
            stable = 0;
            last = a;
        }
    }
}

async fn on_hook(_p: Plugin<()>, v: Value) -> Result<Value, anyhow::Error> {
    let tag = v["tag"].as_u64().unwrap_or(0);
    let (tx, rx) = oneshot::channel();
    PENDING.with(|p| p.borrow_mut().insert(tag, tx));
    INVOKED.with(|i| i.borrow_mut().push(json!({"o":"invoked","method":"htlc_accepted","tag":tag})));
    act();
    let r = rx.await;
    act();
    match r {
        Ok(Ok(v)) => Ok(v),
        Ok(Err(e)) => Err(anyhow::anyhow!(e)),
        Err(_) => Err(anyhow::anyhow!("dropped")),
    }
}

async fn on_block(_p: Plugin<()>, v: Value) -> Result<(), anyhow::Error> {
    let tag = v["tag"].as_u64().unwrap_or(0);
    INVOKED.with(|i| i.borrow_mut().push(json!({"o":"invoked","method":"block_added","tag":tag})));
    act();
    Ok(())
}

fn message_text(m: &Value, pretty: bool) -> String {
    let kind = m["kind"].as_str().unwrap_or("hook");
    let params = json!({"tag": m["tag"], "pad": m["pad"], "block_added": {"height": 1}});
    let v = match kind {
        "hook" => json!({"jsonrpc":"2.0","id":m["id"],"method":"htlc_accepted","params":params}),
        "notif" => json!({"jsonrpc":"2.0","method":"block_added","params":params}),
        _ => json!({"jsonrpc":"2.0","method":"channel_opened","params":params}),
    };
    let s = if pretty { serde_json::to_string_pretty(&v).unwrap() } else { v.to_string() };
    s + "\n\n"
}

pub fn handshake_text() -> String {
    let gm = json!({"jsonrpc":"2.0","id":"gm-1","method":"getmanifest","params":{"allow-deprecated-apis":false}});
    let init = json!({"jsonrpc":"2.0","id":"in-2","method":"init","params":{"options":{},"configuration":{
        "lightning-dir":"/tmp/l","rpc-file":"lightning-rpc","startup":true,"network":"regtest",
        "feature_set":{"init":"","node":"","channel":"","invoice":""}}}});
    gm.to_string() + "\n\n" + &init.to_string() + "\n\n"
}

pub fn run_job(job: WireJob) -> Vec<String> {
    PENDING.with(|p| p.borrow_mut().clear());
    INVOKED.with(|i| i.borrow_mut().clear());
    let rt = tokio::runtime::Builder::new_current_thread().enable_time().start_paused(true).build().expect("harness: runtime");
    rt.block_on(async move {
        let mut lines: Vec<String> = Vec::new();
        let (mut to_plugin, plugin_in) = tokio::io::duplex(1 << 20);
        let (plugin_out, mut from_plugin) = tokio::io::duplex(if job.outcap > 0 { job.outcap } else { 1 << 20 });
        let mut stream: Vec<u8> = handshake_text().into_bytes();
        let hs_len = stream.len();
        let mut msg_ends: Vec<usize> = Vec::new();
        for m in &job.msgs {
            stream.extend_from_slice(message_text(m, job.pretty).as_bytes());
            msg_ends.push(stream.len());
        }
        lines.push(json!({"ev":"reset","run":job.run,"stream":stream,"hs":hs_len,
            "msgs": job.msgs.iter().map(|m| json!({"kind":m["kind"],"id":m["id"],"tag":m["tag"]})).collect::<Vec<_>>()}).to_string());
        tokio::spawn(async move {
            let b = Builder::new(plugin_in, plugin_out)
                .hook("htlc_accepted", on_hook)
                .subscribe("block_added", on_block)
                .with_logging(false);
            let r = b.start(()).await;
            act();
            match r {
                Ok(Some(p)) => {
                    let _ = p.join().await;
                }
                _ => {}
            }
            act();
        });
        let mut pos = 0usize;
        let mut closed = false;
        let mut outbuf: Vec<u8> = Vec::new();
        for step in &job.steps {
            let a = step["a"].as_str().unwrap_or("");
            let mut ev = json!({"ev": a});
            match a {
                "chunk" | "chunk_msgs" => {
                    let want = if a == "chunk_msgs" {
                        let upto = step["upto"].as_u64().unwrap_or(0) as usize;
                        msg_ends.get(upto.saturating_sub(1)).copied().unwrap_or(hs_len).saturating_sub(pos)
                    } else {
                        step["n"].as_u64().unwrap_or(1) as usize
                    };
                    ev["ev"] = json!("chunk");
                    let n = want.min(stream.len() - pos);
                    if n == 0 {
                        continue;
                    }
                    if to_plugin.write_all(&stream[pos..pos + n]).await.is_err() {
                        // the plugin closed its stdin: its IO loop has ended (that is data, not a harness failure)
                        closed = true;
                        break;
                    }
                    pos += n;
                    ev["n"] = json!(n);
                    ev["pos"] = json!(pos);
                }
                "read" => {}
                "finish_many" => {
                    // several handlers return in the same instant (e.g. resolve() answering a whole set)
                    let how = step["how"].as_str().unwrap_or("ok");
                    let mut done = Vec::new();
                    for t in step["tags"].as_array().cloned().unwrap_or_default() {
                        let tag = t.as_u64().unwrap_or(0);
                        if let Some(tx) = PENDING.with(|p| p.borrow_mut().remove(&tag)) {
                            let _ = tx.send(if how == "ok" { Ok(json!({"result":"continue","echo":tag})) } else { Err(format!("boom {}", tag)) });
                            done.push(tag);
                        }
                    }
                    if done.is_empty() {
                        continue;
                    }
                    ev["tags"] = json!(done);
                    ev["how"] = json!(how);
                }
                "finish" => {
                    let tag = step["tag"].as_u64().unwrap_or(0);
                    let how = step["how"].as_str().unwrap_or("ok");
                    let tx = PENDING.with(|p| p.borrow_mut().remove(&tag));
                    match tx {
                        Some(tx) => {
                            let _ = tx.send(if how == "ok" { Ok(json!({"result":"continue","echo":tag})) } else { Err(format!("boom {}", tag)) });
                            ev["tag"] = json!(tag);
                            ev["how"] = json!(how);
                        }
                        None => continue,
                    }
                }
                _ => continue,
            }
            settle().await;
            // whatever the plugin wrote (a slow reader only looks at explicit read steps)
            let mut tmp = vec![0u8; 1 << 16];
            while !job.slow || a == "read" {
                match tokio::time::timeout(std::time::Duration::from_millis(0), from_plugin.read(&mut tmp)).await {
                    Ok(Ok(n)) if n > 0 => {
                        outbuf.extend_from_slice(&tmp[..n]);
                        if job.slow {
                            // let the writer refill the small pipe
                            settle().await;
                        }
                    }
                    _ => break,
                }
            }
            let mut out: Vec<Value> = INVOKED.with(|i| i.borrow_mut().drain(..).collect());
            // split the output into frames
            loop {
                let sep = outbuf.windows(2).position(|w| w == b"\n\n");
                match sep {
                    Some(k) => {
                        let frame: Vec<u8> = outbuf.drain(..k + 2).collect();
                        let body = &frame[..frame.len() - 2];
                        match serde_json::from_slice::<Value>(body) {
                            Ok(v) => {
                                let kind = if v.get("result").is_some() { "result" } else if v.get("error").is_some() { "error" } else { "other" };
                                let echo = v["result"]["echo"].as_u64().map(|x| json!(x)).unwrap_or(json!(-1));
                                let errtag = v["error"]["message"].as_str().and_then(|m| m.strip_prefix("boom ")).and_then(|t| t.parse::<u64>().ok()).map(|x| json!(x)).unwrap_or(json!(-1));
                                out.push(json!({"o":"frame","json":true,"id":v.get("id").cloned().unwrap_or(json!("none")).to_string(),
                                                "kind":kind,"echo":echo,"errtag":errtag}));
                            }
                            Err(_) => out.push(json!({"o":"frame","json":false,"id":"?","kind":"garbage","echo":-1,"errtag":-1})),
                        }
                    }
                    None => break,
                }
            }
            ev["pending_out"] = json!(outbuf.len());
            ev["slow"] = json!(job.slow);
            ev["out"] = json!(out);
            lines.push(ev.to_string());
        }
        lines.push(json!({"ev":"end","run":job.run,"leftover":outbuf.len(),"closed":closed}).to_string());
        lines
    })
}

pub fn run_file(inp: &str, out: &str) {
    std::panic::set_hook(Box::new(|info| {
        eprintln!("wire: panic {:?}", info.location());
    }));
    let mut w = std::io::BufWriter::new(std::fs::File::create(out).expect("out"));
    for line in std::io::BufReader::new(std::fs::File::open(inp).expect("in")).lines() {
        let line = line.unwrap();
        if line.trim().is_empty() {
            continue;
        }
        let job: WireJob = serde_json::from_str(&line).expect("harness: wire job");
        for l in run_job(job) {
            writeln!(w, "{}", l).unwrap();
        }
    }
    w.flush().unwrap();
}
