//! Engine A: the real HtlcManager / ClnDatastore / PayPaymentProvider on a
//! paused current-thread runtime, driven one environment event at a time.
//! One trace line per event, carrying the plugin's complete reaction (`out`).
use std::collections::{BTreeMap, HashMap};
use std::sync::Arc;
use std::time::Duration;

use serde::Deserialize;
use serde_json::{json, Value};

use crate::block_watcher::BlockProvider;
use crate::cat::{self, HtlcSpec, InvSpec};
use crate::email::{NotificationService, NotifyPaymentFailedRequest};
use crate::htlc_manager::{HtlcManager, HtlcManagerParams};
use crate::messages::{HtlcAcceptedRequest, HtlcAcceptedResponse, TrampolineRoutingPolicy};
use crate::payment_provider::{PayPaymentProvider, PaymentProvider, PaymentRequest};
use crate::rpc::Rpc;
use crate::sim::{self, CallSt};
use crate::store::ClnDatastore;
use crate::util::Rng;

#[derive(Clone, Debug, Deserialize)]
pub struct Cfg {
    pub base: u32,
    pub ppm: u32,
    pub pdelta: u16,
    pub sdelta: u16,
    pub mpp: u64,
    #[serde(default = "tru")]
    pub selfhints: bool,
    #[serde(default = "h0")]
    pub h0: u32,
    #[serde(default = "sixty")]
    pub paytimeout: u64,
    #[serde(default)]
    pub xpay: bool,
    /// the MPP timeout really handed to the plugin when it is larger than the trace can express (the option is a
    /// 64-bit number of seconds; `mpp` then carries 1_000_000 = "does not expire within the run")
    #[serde(default)]
    pub mpp_real: Option<u64>,
}
fn tru() -> bool {
    true
}
fn h0() -> u32 {
    100
}
fn sixty() -> u64 {
    60
}

#[derive(Clone, Debug, Deserialize)]
pub struct Scenario {
    pub cfg: Cfg,
    pub invs: Vec<InvSpec>,
    pub htlcs: Vec<HtlcSpec>,
    /// fully funding probe set for C09 (delivered after the drain), if any
    #[serde(default)]
    pub probe: Vec<HtlcSpec>,
}

#[derive(Clone, Debug, Deserialize, Default)]
pub struct RandCfg {
    pub seed: u64,
    #[serde(default = "forty")]
    pub steps: usize,
    #[serde(default)]
    pub crashes: u32,
    #[serde(default)]
    pub wfaults: u32,
    #[serde(default)]
    pub rfaults: u32,
    #[serde(default = "two")]
    pub maxparts: usize,
    #[serde(default = "two")]
    pub maxpays: usize,
    #[serde(default = "six")]
    pub maxclock: u64,
    #[serde(default)]
    pub heights: bool,
    /// hash whose environment is frozen from a random point on (C14)
    #[serde(default)]
    pub freeze: String,
    /// lifecycle whose datastore writes the node serves very late (its bookkeeping then
    /// overlaps with the next lifecycle of the same hash); 0 = none
    #[serde(default)]
    pub slow_lc: u32,
    /// HTLCs with an id >= late_from are delivered only after some HTLC has been answered
    /// (a second set arriving after the first one was decided); 0 = no such restriction
    #[serde(default)]
    pub late_from: u64,
    /// the wall clock may be stepped back at a crash
    #[serde(default)]
    pub clockback: bool,
    /// HTLC k+1 is delivered only after HTLC k has been answered (successive sets)
    #[serde(default)]
    pub staged: bool,
    /// number of direct calls of wait_payment / pay (Engine A-prov; C15, C16)
    #[serde(default)]
    pub direct: u32,
}
fn forty() -> usize {
    40
}
fn two() -> usize {
    2
}
fn six() -> u64 {
    6
}

#[derive(Clone, Debug, Deserialize)]
pub struct Job {
    pub run: u64,
    pub scen: Scenario,
    #[serde(default)]
    pub sched: Option<Vec<Value>>,
    #[serde(default)]
    pub rand: Option<RandCfg>,
    #[serde(default = "tru")]
    pub drain: bool,
    #[serde(default)]
    pub probes: u32,
    #[serde(default)]
    pub tag: String,
    /// steps appended after the schedule and before the drain: "crash_replay" (crash, then every
    /// replayable HTLC is delivered again), "probe" (the scenario's probe set arrives now)
    #[serde(default)]
    pub epilogue: Vec<String>,
    /// cltv_expiry_relative of an HTLC is its expiry minus the chain height at the moment it is delivered
    /// (what lightningd reports; it shrinks on a replay after blocks arrived) instead of the fixed `rel`
    #[serde(default)]
    pub derive_rel: bool,
    /// record the onion payload bytes of every HTLC in the trace (C13 payload clause)
    #[serde(default)]
    pub payload: bool,
    /// the chain height the lifecycle sees comes from the REAL BlockWatcher (started the way main.rs starts it, fed by
    /// block_added notifications and its getinfo polls) instead of the simulated height
    #[serde(default)]
    pub realblocks: bool,
}

struct VBlocks {
    real: Option<Arc<crate::block_watcher::BlockWatcher>>,
}
#[async_trait::async_trait]
impl BlockProvider for VBlocks {
    async fn current_height(&self) -> u32 {
        match &self.real {
            Some(w) => w.current_height().await,
            None => sim::with(|s| s.height),
        }
    }
}

struct VNotify;
#[async_trait::async_trait]
impl NotificationService for VNotify {
    async fn notify_payment_failed(&self, req: NotifyPaymentFailedRequest) {
        use secp256k1::hashes::Hash;
        sim::with(|s| {
            let inv = s.inv_index.get(&req.invoice).copied().unwrap_or(0);
            s.out.push(json!({"o":"notify","hash": cat::hash_name(&req.payment_hash.to_byte_array()),
                              "payee": cat::payee_name(&req.destination), "inv": inv}));
            s.activity += 1;
        });
    }
}

type Mgr = HtlcManager<VBlocks, VNotify, PayPaymentProvider<Rpc>, ClnDatastore>;

#[derive(Clone, Copy, PartialEq, Eq, Debug)]
enum HSt {
    Unsent,
    Held,
    Answered,
}

pub struct Driver {
    job: Job,
    cache: HashMap<InvSpec, Vec<u8>>,
    pub lines: Vec<String>,
    hst: BTreeMap<u64, HSt>,
    specs: BTreeMap<u64, HtlcSpec>,
    last_answered: Vec<u64>,
    rng: Rng,
    cursor: usize,
    pub diverged: u32,
    crashes_left: u32,
    wfaults_left: u32,
    rfaults_left: u32,
    direct_left: u32,
    pays: usize,
    frozen: bool,
    freeze_at: usize,
    /// lifecycles (task names) that issued a call for the frozen hash: their hash-less calls (getinfo) freeze too
    frozen_lcs: std::collections::BTreeSet<u32>,
    steps_done: usize,
    finished: bool,
    probe_settled: bool,
    epi: usize,
    replay_pending: bool,
    wall_back: u64,
    watcher: Option<Arc<crate::block_watcher::BlockWatcher>>,
    watcher_stop: Option<tokio::sync::mpsc::Sender<()>>,
}

pub fn answer_json(i: u64, resp: &HtlcAcceptedResponse) -> Value {
    let v = serde_json::to_value(resp).unwrap_or(Value::Null);
    let r = v["result"].as_str().unwrap_or("?").to_string();
    let mut o = json!({"o":"answer","i":i,"r":r,"key":"","code":"","bytes":[],"payload":"none"});
    match r.as_str() {
        "resolve" => {
            let key = hex::decode(v["payment_key"].as_str().unwrap_or("")).unwrap_or_default();
            o["key"] = json!(cat::key_label(&key));
        }
        "fail" => {
            let b = hex::decode(v["failure_message"].as_str().unwrap_or("")).unwrap_or_default();
            let code = if b == [0x20, 2] {
                "node"
            } else if b == [0x20, 25] {
                "tramp"
            } else if b.len() == 12 && b[0] == 0x20 && b[1] == 26 {
                "fee"
            } else {
                "other"
            };
            o["code"] = json!(code);
            o["bytes"] = json!(b);
        }
        "continue" => {
            if let Some(p) = v.get("payload").and_then(|p| p.as_str()) {
                o["payload"] = json!("rewritten");
                o["pbytes"] = json!(hex::decode(p).unwrap_or_default());
            }
        }
        _ => {}
    }
    o
}

thread_local! {
    pub static PANICS: std::cell::RefCell<Vec<Value>> = std::cell::RefCell::new(Vec::new());
}

pub fn install_panic_hook() {
    std::panic::set_hook(Box::new(|info| {
        let msg = if let Some(s) = info.payload().downcast_ref::<&str>() {
            s.to_string()
        } else if let Some(s) = info.payload().downcast_ref::<String>() {
            s.clone()
        } else {
            String::from("?")
        };
        if msg.starts_with("harness:") {
            eprintln!("HARNESS PANIC: {} at {:?}", msg, info.location());
            std::process::exit(2);
        }
        let loc = info
            .location()
            .map(|l| format!("{}:{}", l.file().rsplit('/').next().unwrap_or(""), l.line()))
            .unwrap_or_default();
        let file = info.location().map(|l| l.file().to_string()).unwrap_or_default();
        // plugin code only ever runs inside spawned tasks; the driver is the root future
        let in_task = tokio::task::try_id().is_some();
        if !in_task || (!file.starts_with(concat!(env!("VFH_REPO_DIR"), "/")) && !file.contains("/.cargo/") && !file.contains("/rustc/") && !file.contains("/library/")) {
            eprintln!("HARNESS PANIC (harness code): {} at {}", msg, loc);
            std::process::exit(2);
        }
        // line numbers move with every edit: name the one known site by its message
        let loc = if msg.starts_with("not yet implemented: Failed to await pending payment") {
            String::from("htlc_manager.rs:todo")
        } else {
            loc
        };
        let short: String = msg.chars().take(60).collect();
        if std::env::var("VFH_DEBUG").is_ok() {
            eprintln!("PANIC (recorded): {} at {}", msg, file);
        }
        PANICS.with(|p| p.borrow_mut().push(json!({"o":"panic","msg":short,"loc":loc})));
    }));
}

async fn settle() {
    let mut last = sim::with(|s| s.activity);
    let mut stable = 0;
    while stable < 40 {
        tokio::task::yield_now().await;
        let a = sim::with(|s| s.activity) + PANICS.with(|p| p.borrow().len() as u64);
        if a == last {
            stable += 1;
        } else {
            stable = 0;
            last = a;
        }
    }
    sim::with(|s| s.reap_dropped());
}

fn sel_matches(sel: &Value, abs: &Value) -> bool {
    match sel.as_object() {
        Some(m) => m.iter().all(|(k, v)| {
            if v.is_object() {
                sel_matches(v, &abs[k])
            } else {
                abs.get(k) == Some(v)
            }
        }),
        None => false,
    }
}

impl Driver {
    pub fn new(job: Job) -> Self {
        let r = job.rand.clone().unwrap_or_default();
        let mut rng = Rng::new(r.seed ^ 0x9e37_79b9_7f4a_7c15 ^ job.run);
        let freeze_at = if r.freeze.is_empty() { usize::MAX } else { rng.below(r.steps.max(1) as u64) as usize };
        let mut d = Driver {
            cache: HashMap::new(),
            lines: Vec::new(),
            hst: BTreeMap::new(),
            specs: BTreeMap::new(),
            last_answered: Vec::new(),
            rng,
            cursor: 0,
            diverged: 0,
            crashes_left: r.crashes,
            wfaults_left: r.wfaults,
            rfaults_left: r.rfaults,
            direct_left: r.direct,
            pays: 0,
            frozen: false,
            freeze_at,
            frozen_lcs: Default::default(),
            steps_done: 0,
            finished: false,
            probe_settled: false,
            epi: 0,
            replay_pending: false,
            wall_back: 0,
            watcher: None,
            watcher_stop: None,
            job,
        };
        for (k, h) in d.job.scen.htlcs.clone().into_iter().enumerate() {
            d.hst.insert(k as u64 + 1, HSt::Unsent);
            d.specs.insert(k as u64 + 1, h);
        }
        d
    }

    fn line(&mut self, mut ev: Value) {
        let mut out = sim::with(|s| std::mem::take(&mut s.out));
        PANICS.with(|p| out.extend(p.borrow_mut().drain(..)));
        for o in &out {
            if o["o"] == "answer" {
                let i = o["i"].as_u64().unwrap();
                if i > 100 && o["r"] == "resolve" {
                    self.probe_settled = true;
                }
                self.hst.insert(i, HSt::Answered);
                self.last_answered.push(i);
            }
        }
        ev["out"] = Value::Array(out);
        self.lines.push(ev.to_string());
    }

    fn build_manager(&self) -> Arc<Mgr> {
        let c = &self.job.scen.cfg;
        let rpc = Arc::new(Rpc::new(String::new()));
        Arc::new(HtlcManager::new(HtlcManagerParams {
            allow_self_route_hints: c.selfhints,
            block_provider: Arc::new(VBlocks { real: self.watcher.clone() }),
            cltv_delta: c.sdelta,
            local_pubkey: cat::local_pubkey(),
            mpp_timeout: Duration::from_secs(c.mpp_real.unwrap_or(c.mpp)),
            notification_service: Arc::new(VNotify),
            payment_provider: Arc::new(PayPaymentProvider::new(
                Arc::clone(&rpc),
                Duration::from_secs(c.paytimeout),
                c.xpay,
            )),
            routing_policy: TrampolineRoutingPolicy {
                fee_base_msat: c.base,
                fee_proportional_millionths: c.ppm,
                cltv_expiry_delta: c.pdelta,
            },
            store: Arc::new(ClnDatastore::new(rpc)),
        }))
    }

    pub fn start(&mut self) {
        sim::with(|s| {
            s.reset();
            s.height = self.job.scen.cfg.h0;
        });
        crate::clock::enable(crate::clock::EPOCH_SECS);
        let mut idx = HashMap::new();
        for (k, spec) in self.job.scen.invs.iter().enumerate() {
            let bytes = self.cache.entry(spec.clone()).or_insert_with(|| cat::invoice_bytes(spec)).clone();
            if let Ok(s) = String::from_utf8(bytes) {
                idx.insert(s, k + 1);
            }
        }
        sim::with(|s| s.inv_index = idx);
        let c = &self.job.scen.cfg;
        let ev = json!({"ev":"reset","run":self.job.run,"tag":self.job.tag,
            "cfg":{"base":c.base,"ppm":c.ppm,"pdelta":c.pdelta,"sdelta":c.sdelta,"mpp":c.mpp,
                   "selfhints":c.selfhints,"h0":c.h0,"retry": c.paytimeout.min(65535), "xpay": c.xpay},
            "invs": self.job.scen.invs.iter().map(|i| json!({"hash":i.hash,"amt":i.amt,"hint": if i.hops.is_empty() { i.hint } else { i.hops.split(',').any(|h| h.ends_with('L')) },"payee":format!("p{}",i.payee),"form":i.form,"zero":i.zero})).collect::<Vec<_>>()});
        self.line(ev);
    }

    async fn do_htlc(&mut self, mgr: &Arc<Mgr>, i: u64) {
        let mut spec = self.specs[&i].clone();
        if self.job.derive_rel {
            spec.rel = spec.exp as i64 - sim::with(|s| s.height) as i64;
        }
        let req = cat::request_json(i, &spec, &self.job.scen.invs, &mut self.cache);
        self.hst.insert(i, HSt::Held);
        let mgr = Arc::clone(mgr);
        tokio::spawn(async move {
            match serde_json::from_value::<HtlcAcceptedRequest>(req) {
                Ok(req) => {
                    let resp = mgr.handle_htlc(&req).await;
                    sim::with(|s| {
                        s.out.push(answer_json(i, &resp));
                        s.activity += 1;
                    });
                }
                Err(e) => sim::with(|s| {
                    // plugin.rs answers a JSON-RPC error in this case (Engine C checks that path)
                    s.out.push(json!({"o":"answer","i":i,"r":"rpcerror","key":"","code":"","bytes":[],"payload": e.to_string()}));
                    s.activity += 1;
                }),
            }
        });
        settle().await;
        let mut sp = serde_json::to_value(SpecOut(&spec)).unwrap();
        if self.job.payload {
            let meta = cat::metadata_bytes(&spec, &self.job.scen.invs, &mut self.cache);
            sp["payload_in"] = json!(cat::encode_records(&cat::payload_records(&spec, meta)));
        }
        let big = spec.amt > 2_000_000_000 || spec.total > 2_000_000_000 || spec.decl > 2_000_000_000
            || spec.exp > 2_000_000_000 || spec.rel.unsigned_abs() > 2_000_000_000;
        if big {
            // beyond TLC's integers: judged only for "answered exactly once, no panic"
            for k in ["amt", "total", "decl", "exp", "rel"] {
                sp[k] = json!(0);
            }
        }
        sp["big"] = json!(big);
        sp["i"] = json!(i);
        sp["ev"] = json!("htlc");
        self.line(sp);
    }

    fn find_call(&self, step: &Value, sts: &[CallSt]) -> Option<u64> {
        let sel = &step["sel"];
        let who = step["who"].as_str().unwrap_or("");
        sim::with(|s| {
            if let Some(id) = sel.get("call").and_then(|c| c.as_u64()) {
                return s.calls.get(&id).filter(|c| sts.contains(&c.st)).map(|c| c.id);
            }
            let m: Vec<(u32, u64)> = s.calls.values().filter(|c| sts.contains(&c.st) && sel_matches(sel, &c.abs)).map(|c| (c.lc, c.id)).collect();
            // the same call content can be outstanding twice: the tail of an old
            // lifecycle and the owner (newest lifecycle) of the same hash
            match (m.len(), who) {
                (1, _) => Some(m[0].1),
                (0, _) => None,
                (_, "own") => m.iter().max().map(|x| x.1),
                (_, "tail") => m.iter().min().map(|x| x.1),
                _ => None,
            }
        })
    }

    fn call_fields(&self, id: u64, ev: &str) -> Value {
        sim::with(|s| {
            let mut v = s.calls[&id].abs.clone();
            v["ev"] = json!(ev);
            v["call"] = json!(id);
            v
        })
    }

    fn commit_answers(&mut self) {
        self.last_answered.clear();
    }

    /// Apply one step.  Returns Some(true) on crash (runtime must be rebuilt).
    async fn apply(&mut self, mgr: &Arc<Mgr>, step: &Value) -> bool {
        let before = self.diverged;
        let r = self.apply_inner(mgr, step).await;
        if self.diverged != before && std::env::var("VFH_DEBUG").is_ok() {
            let calls: Vec<String> = sim::with(|s| s.calls.values().filter(|c| matches!(c.st, CallSt::Issued | CallSt::Running | CallSt::Executed)).map(|c| format!("{:?} {}", c.st, c.abs)).collect());
            eprintln!("DIVERGED run {} at line {} step {} ; outstanding: {:?}", self.job.run, self.lines.len(), step, calls);
        }
        r
    }

    async fn apply_inner(&mut self, mgr: &Arc<Mgr>, step: &Value) -> bool {
        let a = step["a"].as_str().unwrap_or("");
        if a != "crash" {
            self.commit_answers();
        }
        match a {
            "htlc" => {
                let i = step["i"].as_u64().unwrap_or(0);
                if self.hst.get(&i) == Some(&HSt::Unsent) {
                    self.do_htlc(mgr, i).await;
                } else {
                    self.diverged += 1;
                }
            }
            "exec" => {
                let fault = step["fault"].as_str().unwrap_or("none").to_string();
                match self.find_call(step, &[CallSt::Issued]) {
                    Some(id) if sim::with(|s| s.exec_enabled(id)) => {
                        let res = sim::with(|s| s.exec(id, &fault));
                        let mut ev = self.call_fields(id, "exec");
                        ev["fault"] = json!(fault);
                        ev["res"] = res;
                        self.line(ev);
                    }
                    _ => self.diverged += 1,
                }
            }
            "deliver" => match self.find_call(step, &[CallSt::Executed]) {
                Some(id) => {
                    sim::with(|s| s.deliver(id));
                    settle().await;
                    let ev = self.call_fields(id, "deliver");
                    self.line(ev);
                }
                None => self.diverged += 1,
            },
            "paypart" => match self.find_call(step, &[CallSt::Running]) {
                Some(id) => {
                    let p = sim::with(|s| s.pay_part(id));
                    let mut ev = self.call_fields(id, "paypart");
                    ev["part"] = json!(p);
                    self.line(ev);
                }
                None if step["orphan_ok"].as_bool().unwrap_or(false) => {
                    // a part left behind by an earlier attempt (Engine A-prov)
                    let hash = step["sel"]["hash"].as_str().unwrap_or("h1").to_string();
                    let p = sim::with(|s| s.orphan_part(&hash));
                    self.line(json!({"ev":"paypart","kind":"pay","call":0,"hash":hash,"part":p}));
                }
                None => self.diverged += 1,
            },
            "partdone" => {
                let p = step["p"].as_u64().unwrap_or(0) as usize;
                let how = step["how"].as_str().unwrap_or("failed").to_string();
                let code = step["code"].as_i64().unwrap_or(203) as i32;
                let ok = sim::with(|s| p >= 1 && p <= s.parts.len() && s.parts[p - 1].st == "pending");
                if ok {
                    sim::with(|s| s.part_done(p, &how, code));
                    let hash = sim::with(|s| s.parts[p - 1].hash.clone());
                    self.line(json!({"ev":"partdone","part":p,"how":how,"code":code,"hash":hash}));
                } else {
                    self.diverged += 1;
                }
            }
            "payreturn" => match self.find_call(step, &[CallSt::Running]) {
                Some(id) => {
                    let outcome = step["outcome"].as_str().unwrap_or("error").to_string();
                    let hash = sim::with(|s| s.calls[&id].abs["hash"].as_str().unwrap_or("").to_string());
                    let (live, done) = sim::with(|s| (s.live(&hash), s.completed(&hash)));
                    // E4: complete needs a completed part; plain failed needs nothing live
                    if (outcome == "complete" && !done) || (outcome == "failed" && live) {
                        self.diverged += 1;
                    } else {
                        sim::with(|s| s.pay_return(id, &outcome));
                        let mut ev = self.call_fields(id, "payreturn");
                        ev["outcome"] = json!(outcome);
                        self.line(ev);
                    }
                }
                None => self.diverged += 1,
            },
            // the design's switch to its probe phase (the instance's own probe HTLCs follow as ordinary arrivals)
            "phase" => self.line(json!({"ev":"phase"})),
            "tick" => {
                sim::with(|s| s.now += 1);
                crate::clock::set_secs((crate::clock::EPOCH_SECS + sim::with(|s| s.now)).saturating_sub(self.wall_back));
                tokio::time::advance(Duration::from_secs(1)).await;
                settle().await;
                let now = sim::with(|s| s.now);
                self.line(json!({"ev":"tick","now":now}));
            }
            "height" => {
                let h = step["h"].as_u64().unwrap_or(0) as u32;
                sim::with(|s| s.height = h);
                if let Some(w) = self.watcher.clone() {
                    // the block_added notification (in a task of its own: a watcher that blocks must not block the driver)
                    tokio::spawn(async move { let blk = crate::messages::BlockAdded { height: h }; crate::await_if_future!(w.new_block(&blk)) });
                    settle().await;
                }
                self.line(json!({"ev":"height","h":h}));
            }
            "stale" => {
                // a late or repeated block_added notification: the node's height does not change
                let h = step["h"].as_u64().unwrap_or(0) as u32;
                if let Some(w) = self.watcher.clone() {
                    tokio::spawn(async move { let blk = crate::messages::BlockAdded { height: h }; crate::await_if_future!(w.new_block(&blk)) });
                    settle().await;
                }
                self.line(json!({"ev":"stale","h":h}));
            }
            "wp" => {
                // Engine A-prov: direct call of wait_payment
                let hash = step["hash"].as_str().unwrap_or("h1").to_string();
                let prov = PayPaymentProvider::new(Arc::new(Rpc::new(String::new())), Duration::from_secs(60), self.job.scen.cfg.xpay);
                let h2 = hash.clone();
                tokio::spawn(async move {
                    let r = prov.wait_payment(cat::hash_of(cat::hash_index(&h2))).await;
                    let (rs, key) = match &r {
                        Ok(Some(k)) => ("pre", cat::key_label(k)),
                        Ok(None) => ("none", String::new()),
                        Err(_) => ("err", String::new()),
                    };
                    sim::with(|s| {
                        s.out.push(json!({"o":"ret","fn":"wp","hash":h2,"r":rs,"key":key}));
                        s.activity += 1;
                    });
                });
                settle().await;
                self.line(json!({"ev":"wpcall","hash":hash}));
            }
            "paycall" => {
                let hash = step["hash"].as_str().unwrap_or("h1").to_string();
                let inv = step["inv"].as_u64().unwrap_or(1) as usize;
                let bolt11 = String::from_utf8(cat::invoice_bytes(&self.job.scen.invs[inv - 1])).unwrap_or_default();
                let prov = PayPaymentProvider::new(Arc::new(Rpc::new(String::new())), Duration::from_secs(60), self.job.scen.cfg.xpay);
                let h2 = hash.clone();
                tokio::spawn(async move {
                    let r = prov
                        .pay(PaymentRequest {
                            bolt11,
                            payment_hash: cat::hash_of(cat::hash_index(&h2)),
                            amount_msat: None,
                            max_fee_msat: 1,
                            max_cltv_delta: 10,
                        })
                        .await;
                    let (rs, key) = match &r {
                        Ok(k) => ("ok", cat::key_label(k)),
                        Err(_) => ("err", String::new()),
                    };
                    sim::with(|s| {
                        s.out.push(json!({"o":"ret","fn":"pay","hash":h2,"r":rs,"key":key}));
                        s.activity += 1;
                    });
                });
                settle().await;
                self.line(json!({"ev":"paycall","hash":hash,"inv":inv}));
            }
            "crash" => {
                let lose = step["lose"].as_bool().unwrap_or(false);
                let mut lost: Vec<u64> = Vec::new();
                if lose {
                    lost = std::mem::take(&mut self.last_answered);
                }
                self.last_answered.clear();
                for (i, st) in self.hst.iter_mut() {
                    if *st == HSt::Held || lost.contains(i) {
                        *st = HSt::Unsent;
                    }
                }
                sim::with(|s| s.crash());
                self.pays_reset();
                // the wall clock may be stepped back while the node is down (NTP, VM restore): the monotonic
                // clock is unaffected, stored attempt times can then lie in the future
                let back = step["back"].as_u64().unwrap_or(0);
                if back > 0 {
                    self.wall_back += back;
                    crate::clock::set_secs((crate::clock::EPOCH_SECS + sim::with(|s| s.now)).saturating_sub(self.wall_back));
                }
                self.line(json!({"ev":"crash","lost":lost,"back":back}));
                return true;
            }
            _ => self.diverged += 1,
        }
        false
    }

    fn pays_reset(&mut self) {}

    /// All environment steps enabled now (random scheduling and drain).
    fn enabled(&mut self, drain: bool) -> Vec<(u32, Value)> {
        let r = self.job.rand.clone().unwrap_or_default();
        let frozen_hash = if self.frozen { r.freeze.clone() } else { String::new() };
        let mut v: Vec<(u32, Value)> = Vec::new();
        if !drain {
            let answered_any = self.hst.values().any(|s| *s == HSt::Answered);
            for (i, st) in &self.hst {
                if r.late_from != 0 && *i >= r.late_from && !answered_any {
                    continue;
                }
                if r.staged && *i > 1 && self.hst.get(&(*i - 1)) != Some(&HSt::Answered) {
                    continue;
                }
                if *st == HSt::Unsent && (frozen_hash.is_empty() || self.specs[i].hash != frozen_hash) {
                    // after a crash the replay of the later HTLCs may be slow (peers reconnect one by one)
                    let w = if r.clockback && self.wall_back > 0 && *i > 1 { 1 } else { 6 };
                    v.push((w, json!({"a":"htlc","i":i})));
                }
            }
        }
        let snapshot: Vec<(u64, CallSt, Value, String, u32)> = sim::with(|s| {
            s.calls.values().map(|c| (c.id, c.st, c.abs.clone(), c.method.clone(), c.lc)).collect()
        });
        let nparts = sim::with(|s| s.parts.len());
        if !r.freeze.is_empty() {
            for (_, _, abs, _, lc) in &snapshot {
                if *lc != 0 && abs["hash"].as_str() == Some(r.freeze.as_str()) {
                    self.frozen_lcs.insert(*lc);
                }
            }
        }
        for (id, st, abs, method, lc) in snapshot {
            let hash = abs["hash"].as_str().unwrap_or("").to_string();
            // a slow lifecycle: its datastore writes are served about 40 times less often
            let slow = !drain && r.slow_lc != 0 && lc == r.slow_lc && method == "datastore";
            let w10 = if slow { 0 } else { 10 };
            if slow && self.rng.below(40) == 0 {
                match st {
                    CallSt::Issued => v.push((10, json!({"a":"exec","sel":{"call":id},"fault":"none"}))),
                    CallSt::Executed => v.push((10, json!({"a":"deliver","sel":{"call":id}}))),
                    _ => {}
                }
                continue;
            }
            if slow {
                continue;
            }
            let _ = w10;
            if !frozen_hash.is_empty() && (hash == frozen_hash || (hash.is_empty() && self.frozen_lcs.contains(&lc))) {
                continue;
            }
            match st {
                CallSt::Issued => {
                    if sim::with(|s| s.exec_enabled(id)) {
                        if method == "pay" && !drain && self.pays >= r.maxpays {
                            // bound reached: still execute, the command then only returns
                        }
                        v.push((10, json!({"a":"exec","sel":{"call":id},"fault":"none"})));
                        if !drain {
                            if method == "datastore" && self.wfaults_left > 0 {
                                v.push((2, json!({"a":"exec","sel":{"call":id},"fault":"reject"})));
                                v.push((2, json!({"a":"exec","sel":{"call":id},"fault":"lost"})));
                            }
                            if self.rfaults_left > 0 && matches!(method.as_str(), "listdatastore" | "listsendpays" | "waitsendpay") {
                                v.push((2, json!({"a":"exec","sel":{"call":id},"fault":"error"})));
                                if method == "waitsendpay" {
                                    // the call never reaches the node (connection refused / reset): no error object at all
                                    v.push((1, json!({"a":"exec","sel":{"call":id},"fault":"transport"})));
                                }
                            }
                        }
                    }
                }
                CallSt::Executed => v.push((10, json!({"a":"deliver","sel":{"call":id}}))),
                CallSt::Running => {
                    let (live, done) = sim::with(|s| (s.live(&hash), s.completed(&hash)));
                    if !drain && nparts < r.maxparts.max(1) * 2 {
                        let mine = sim::with(|s| s.parts.iter().filter(|p| p.cmd == id).count());
                        if mine < r.maxparts {
                            v.push((8, json!({"a":"paypart","sel":{"call":id}})));
                        }
                    }
                    if done {
                        v.push((5, json!({"a":"payreturn","sel":{"call":id},"outcome":"complete"})));
                    }
                    if !live {
                        v.push((if drain { 5 } else { 3 }, json!({"a":"payreturn","sel":{"call":id},"outcome":"failed"})));
                    }
                    let w = if drain && (done || !live) { 0 } else { 2 };
                    for o in ["pending", "failed_warn", "error", "pending_nopre", "transport", "nocode", "error_neg"] {
                        if w > 0 {
                            v.push((w, json!({"a":"payreturn","sel":{"call":id},"outcome":o})));
                        }
                    }
                }
                _ => {}
            }
        }
        let parts: Vec<(usize, String, u64)> = sim::with(|s| {
            s.parts.iter().enumerate().filter(|(_, p)| p.st == "pending").map(|(k, p)| (k + 1, p.hash.clone(), p.cmd)).collect()
        });
        for (p, hash, _cmd) in parts {
            if !frozen_hash.is_empty() && hash == frozen_hash {
                continue;
            }
            v.push((5, json!({"a":"partdone","p":p,"how":"complete"})));
            let code = [202, 203, 204, 209][self.rng.below(4) as usize];
            v.push((5, json!({"a":"partdone","p":p,"how":"failed","code":code})));
        }
        if !drain && self.direct_left > 0 && sim::with(|s| s.outstanding().is_empty()) {
            if nparts < r.maxparts {
                v.push((6, json!({"a":"paypart","sel":{"kind":"pay","hash":"h1"},"orphan_ok":true})));
            }
            v.push((3, json!({"a":"wp","hash":"h1"})));
            v.push((3, json!({"a":"paycall","hash":"h1","inv":1})));
        }
        if !drain {
            let now = sim::with(|s| s.now);
            if now < r.maxclock {
                v.push((4, json!({"a":"tick"})));
            }
            if r.heights {
                let h = sim::with(|s| s.height);
                v.push((2, json!({"a":"height","h":h + 1 + self.rng.below(3) as u32})));
                if self.watcher.is_some() && h > 3 {
                    // a block_added notification for an older block arrives late (or is repeated)
                    v.push((1, json!({"a":"stale","h":h - 1 - self.rng.below(3) as u32})));
                }
            }
            if self.crashes_left > 0 {
                let back = if r.clockback && self.rng.below(2) == 0 { 1 + self.rng.below(3) } else { 0 };
                v.push((2, json!({"a":"crash","lose": self.rng.below(2) == 0, "back": back})));
            }
        }
        v
    }

    fn pick(&mut self, v: &[(u32, Value)]) -> Value {
        let total: u32 = v.iter().map(|x| x.0).sum();
        let mut r = self.rng.below(total as u64) as u32;
        for (w, s) in v {
            if r < *w {
                return s.clone();
            }
            r -= *w;
        }
        v[v.len() - 1].1.clone()
    }

    fn account(&mut self, step: &Value) {
        match step["a"].as_str().unwrap_or("") {
            "crash" => self.crashes_left = self.crashes_left.saturating_sub(1),
            "wp" | "paycall" => self.direct_left = self.direct_left.saturating_sub(1),
            "exec" => match step["fault"].as_str().unwrap_or("none") {
                "reject" | "lost" => self.wfaults_left = self.wfaults_left.saturating_sub(1),
                "error" | "transport" => self.rfaults_left = self.rfaults_left.saturating_sub(1),
                _ => {}
            },
            _ => {}
        }
    }

    /// Drain: no more faults, crashes or new HTLCs; everything outstanding is
    /// executed, delivered, returned and resolved; then time runs out.
    async fn drain(&mut self, mgr: &Arc<Mgr>, coop: bool) {
        let mut guard = 0;
        let mut idle_ticks = 0;
        loop {
            guard += 1;
            if guard > 400 {
                break;
            }
            let mut en = self.enabled(true);
            if coop {
                // cooperative recipient: a running pay gets one part, it completes, pay returns complete
                let running: Option<(u64, String)> = sim::with(|s| {
                    s.calls.values().find(|c| c.st == CallSt::Running).map(|c| (c.id, c.abs["hash"].as_str().unwrap_or("").to_string()))
                });
                if let Some((id, hash)) = running {
                    let (live, done) = sim::with(|s| (s.live(&hash), s.completed(&hash)));
                    if !live {
                        en = vec![(1, json!({"a":"paypart","sel":{"call":id}}))];
                    } else if !done {
                        let p = sim::with(|s| s.parts.iter().position(|p| p.hash == hash && p.st == "pending").map(|k| k + 1));
                        if let Some(p) = p {
                            en = vec![(1, json!({"a":"partdone","p":p,"how":"complete"}))];
                        }
                    } else {
                        en = vec![(1, json!({"a":"payreturn","sel":{"call":id},"outcome":"complete"}))];
                    }
                }
            }
            if en.is_empty() {
                let held = self.hst.values().any(|s| *s == HSt::Held);
                let mpp = self.job.scen.cfg.mpp;
                if held && idle_ticks <= mpp + 1 {
                    idle_ticks += 1;
                    self.apply(mgr, &json!({"a":"tick"})).await;
                    continue;
                }
                break;
            }
            let step = self.pick(&en);
            self.apply(mgr, &step).await;
        }
        self.commit_answers();
        let fr: Vec<String> = match (&self.job.rand, self.frozen) {
            (Some(r), true) if !r.freeze.is_empty() => vec![r.freeze.clone()],
            _ => vec![],
        };
        self.line(json!({"ev":"drained","frozen":fr}));
    }

    async fn probe(&mut self, mgr: &Arc<Mgr>, n: u32) {
        let base = 100 * n as u64;
        let mut ids = Vec::new();
        for (k, h) in self.job.scen.probe.clone().into_iter().enumerate() {
            let i = base + k as u64 + 1;
            self.hst.insert(i, HSt::Unsent);
            self.specs.insert(i, h);
            ids.push(i);
        }
        self.line(json!({"ev":"probe","n":n,"ids":ids}));
        for i in ids {
            self.apply(mgr, &json!({"a":"htlc","i":i})).await;
        }
        self.drain(mgr, true).await;
    }

    /// Run until a crash (returns true) or the end of the job (false).
    /// main.rs: `block_watcher.start(receiver).await?` before the plugin serves hooks.  The first getinfo is served at
    /// once while start() waits for it; a start() that returns without waiting leaves the call to the scheduler.
    async fn start_watcher(&mut self) {
        use std::sync::Mutex as StdMutex;
        self.watcher = None;
        self.watcher_stop = None;
        let (tx, rx) = tokio::sync::mpsc::channel::<()>(1);
        let slot: Arc<StdMutex<Option<Arc<crate::block_watcher::BlockWatcher>>>> = Arc::new(StdMutex::new(None));
        let slot2 = Arc::clone(&slot);
        tokio::spawn(async move {
            let mut w = crate::block_watcher::BlockWatcher::new(Arc::new(Rpc::new(String::new())));
            let _ = w.start(rx).await;
            *slot2.lock().unwrap() = Some(Arc::new(w));
        });
        for _ in 0..8 {
            settle().await;
            if slot.lock().unwrap().is_some() {
                break;
            }
            let pending: Vec<(u64, CallSt)> = sim::with(|s| {
                s.calls.values().filter(|c| c.method == "getinfo" && matches!(c.st, CallSt::Issued | CallSt::Executed)).map(|c| (c.id, c.st)).collect()
            });
            let dummy = self.build_manager();
            for (id, st) in pending {
                if st == CallSt::Issued {
                    self.apply(&dummy, &json!({"a":"exec","sel":{"call":id},"fault":"none"})).await;
                }
                self.apply(&dummy, &json!({"a":"deliver","sel":{"call":id}})).await;
            }
        }
        self.watcher = slot.lock().unwrap().clone();
        self.watcher_stop = Some(tx);
        if self.watcher.is_none() {
            panic!("harness: BlockWatcher::start did not return");
        }
    }

    pub async fn epoch(&mut self) -> bool {
        if self.job.realblocks {
            self.start_watcher().await;
        }
        let mgr = self.build_manager();
        if let Some(sched) = self.job.sched.clone() {
            while self.cursor < sched.len() {
                let step = sched[self.cursor].clone();
                self.cursor += 1;
                if self.apply(&mgr, &step).await {
                    return true;
                }
            }
        } else if let Some(r) = self.job.rand.clone() {
            while self.steps_done < r.steps {
                self.steps_done += 1;
                if self.steps_done >= self.freeze_at {
                    self.frozen = true;
                }
                let en = self.enabled(false);
                if en.is_empty() {
                    break;
                }
                let step = self.pick(&en);
                self.account(&step);
                if self.apply(&mgr, &step).await {
                    return true;
                }
            }
        }
        while self.epi < self.job.epilogue.len() {
            let e = self.job.epilogue[self.epi].clone();
            self.epi += 1;
            match e.as_str() {
                "crash_replay" => {
                    self.replay_pending = true;
                    if self.apply(&mgr, &json!({"a":"crash","lose":false})).await {
                        return true;
                    }
                }
                "probe" => {
                    let base = 900u64;
                    let mut ids = Vec::new();
                    for (k, h) in self.job.scen.probe.clone().into_iter().enumerate() {
                        let i = base + k as u64 + 1;
                        self.hst.insert(i, HSt::Unsent);
                        self.specs.insert(i, h);
                        ids.push(i);
                    }
                    for i in ids {
                        self.apply(&mgr, &json!({"a":"htlc","i":i})).await;
                    }
                }
                _ => {}
            }
        }
        if self.replay_pending {
            self.replay_pending = false;
            let ids: Vec<u64> = self.hst.iter().filter(|(_, s)| **s == HSt::Unsent).map(|(i, _)| *i).collect();
            for i in ids {
                self.apply(&mgr, &json!({"a":"htlc","i":i})).await;
            }
            // let the replayed lifecycles run a little before everything is resolved
            for _ in 0..12 {
                let en: Vec<(u32, Value)> = self.enabled(true).into_iter()
                    .filter(|(_, s)| s["a"] == "exec" || s["a"] == "deliver").collect();
                if en.is_empty() {
                    break;
                }
                let step = self.pick(&en);
                self.apply(&mgr, &step).await;
            }
        }
        if self.job.drain && !self.finished {
            self.drain(&mgr, false).await;
            for n in 1..=self.job.probes {
                self.probe(&mgr, n).await;
                if self.probe_settled {
                    break;
                }
            }
        }
        self.finished = true;
        self.line(json!({"ev":"end","run":self.job.run,"div":self.diverged}));
        false
    }
}

struct SpecOut<'a>(&'a HtlcSpec);
impl<'a> serde::Serialize for SpecOut<'a> {
    fn serialize<S: serde::Serializer>(&self, s: S) -> Result<S::Ok, S::Error> {
        let h = self.0;
        json!({"hash":h.hash,"inv":h.inv,"amt":h.amt,"total":h.total,"exp":h.exp,"rel":h.rel,
               "decl":h.decl,"decl_len":h.decl_len,"fwd":h.fwd,"fwdmsat":h.fwdmsat,"fwd_amt":h.fwd_amt,
               "meta": if h.meta.starts_with("raw:") { "raw" } else { h.meta.as_str() }})
            .serialize(s)
    }
}

fn run_job_once(job: Job, seed: u64) -> (Vec<String>, u32) {
    let mut d = Driver::new(job);
    d.start();
    loop {
        let rt = tokio::runtime::Builder::new_current_thread()
            .enable_time()
            .start_paused(true)
            .rng_seed(tokio::runtime::RngSeed::from_bytes(&seed.to_le_bytes()))
            .build()
            .expect("harness: runtime");
        let crashed = rt.block_on(d.epoch());
        drop(rt);
        if !crashed {
            break;
        }
    }
    (std::mem::take(&mut d.lines), d.diverged)
}

/// Run a job.  A schedule generated from the specification fixes every
/// environment choice but not the plugin's own `select!` tie (ready and fail
/// both queued): the runtime's RNG seed is varied until the real code takes
/// the branch the schedule continues with (at most 12 attempts; the attempt
/// with the fewest inapplicable steps is kept and judged like any other run).
pub fn run_job(job: Job) -> (Vec<String>, u32) {
    let seed = job.rand.as_ref().map(|r| r.seed).unwrap_or(job.run);
    let tries = if job.sched.is_some() { 12 } else { 1 };
    let mut best: Option<(Vec<String>, u32)> = None;
    for k in 0..tries {
        let r = run_job_once(job.clone(), seed.wrapping_add(k * 7919));
        let done = r.1 == 0;
        if best.as_ref().map(|b| r.1 < b.1).unwrap_or(true) {
            best = Some(r);
        }
        if done {
            break;
        }
    }
    best.unwrap()
}
