//! Catalogue: abstract names <-> concrete bytes.  Hashes `h1..`, their
//! preimages, real signed BOLT11 invoices, real onion payloads.
use std::collections::HashMap;

use lightning_invoice::{
    Currency, InvoiceBuilder, PaymentSecret, RawBolt11Invoice, RouteHint, RouteHintHop,
    RoutingFees,
};
use secp256k1::{
    hashes::{sha256, Hash},
    PublicKey, Secp256k1, SecretKey,
};
use serde::{Deserialize, Serialize};
use serde_json::{json, Value};

pub const MAX_HASHES: usize = 6;

pub fn preimage(k: usize) -> [u8; 32] {
    let mut p = [0u8; 32];
    p[0] = k as u8;
    p[31] = 0x5a;
    p
}

pub fn hash_of(k: usize) -> sha256::Hash {
    if k == MAX_HASHES - 1 {
        // the last but one is h1 with its very last bit flipped: any key made of a prefix of the hash names both
        let mut b = sha256::Hash::hash(&preimage(1)).to_byte_array();
        b[31] ^= 1;
        return sha256::Hash::from_byte_array(b);
    }
    if k == MAX_HASHES {
        // the last hash of the catalogue is a "twin" of h1: other bytes, but the same text when every byte is
        // printed without zero padding (0a bc -> "abc" <- ab 0c).  Nobody knows a preimage of it.
        let mut b = sha256::Hash::hash(&preimage(1)).to_byte_array();
        if let Some(i) = (0..31).find(|i| b[*i] >= 1 && b[*i] <= 15 && b[*i + 1] >= 0x10) {
            let (x, y) = (b[i], b[i + 1]);
            b[i] = (x << 4) | (y >> 4);
            b[i + 1] = y & 0x0f;
            return sha256::Hash::from_byte_array(b);
        }
    }
    sha256::Hash::hash(&preimage(k))
}

/// Name of the payment hash with these bytes ("h1".."h6"), or "?".
pub fn hash_name(bytes: &[u8]) -> String {
    for k in 1..=MAX_HASHES {
        if hash_of(k).to_byte_array()[..] == *bytes {
            return format!("h{}", k);
        }
    }
    String::from("?")
}

pub fn hash_name_hex(h: &str) -> String {
    match hex::decode(h) {
        Ok(b) => hash_name(&b),
        Err(_) => String::from("?"),
    }
}

/// Name of the hash this key is the SHA-256 preimage of ("h1"..), or "?".
pub fn key_label(key: &[u8]) -> String {
    hash_name(&sha256::Hash::hash(key).to_byte_array())
}

pub fn hash_index(name: &str) -> usize {
    name.trim_start_matches('h').parse().unwrap_or(0)
}

fn seckey(tag: u8) -> SecretKey {
    let mut b = [0x11u8; 32];
    b[31] = tag;
    SecretKey::from_slice(&b).unwrap()
}

pub fn local_key() -> SecretKey {
    seckey(1)
}
pub fn local_pubkey() -> PublicKey {
    PublicKey::from_secret_key(&Secp256k1::new(), &local_key())
}
/// Payee keys p1, p2, ...
pub fn payee_key(k: u8) -> SecretKey {
    seckey(0x40 + k)
}
pub fn payee_pub(k: u8) -> PublicKey {
    PublicKey::from_secret_key(&Secp256k1::new(), &payee_key(k))
}
pub fn payee_name(pk: &PublicKey) -> String {
    for k in 1..=4u8 {
        if payee_pub(k) == *pk {
            return format!("p{}", k);
        }
    }
    if *pk == local_pubkey() {
        return String::from("local");
    }
    String::from("?")
}

/// Abstract invoice description.
#[derive(Clone, Debug, Serialize, Deserialize, PartialEq, Eq, Hash)]
pub struct InvSpec {
    /// payment hash name
    pub hash: String,
    /// amount in msat; 0 = amountless
    #[serde(default)]
    pub amt: u64,
    /// route hint whose last hop is the local node
    #[serde(default)]
    pub hint: bool,
    /// explicit hops of the route hint, first to last: 'L' = the local node, 'O' = another node
    /// ("" = use `hint`); e.g. "OL" = local node last, "LO" = local node first; ',' separates several hints
    #[serde(default)]
    pub hops: String,
    /// payee key index (signer)
    #[serde(default = "one")]
    pub payee: u8,
    /// "ok" | "badsig" (explicit payee key differs from the signer) |
    /// "garbage" (not bech32) | "nonutf8" | "truncated"
    #[serde(default = "ok")]
    pub form: String,
    /// distinguishes otherwise equal invoices (description text)
    #[serde(default)]
    pub variant: u8,
    /// 0 = an invoice of long ago (as all the others); n > 0 = stamped at the start of the virtual clock and valid
    /// for n seconds
    #[serde(default)]
    pub expiry: u64,
    /// the invoice states an amount, and that amount is 0 (`amt` must be 0 too)
    #[serde(default)]
    pub zero: bool,
}
fn one() -> u8 {
    1
}
fn ok() -> String {
    String::from("ok")
}

/// The invoice field bytes for this spec (what goes into TLV 33001).
pub fn invoice_bytes(spec: &InvSpec) -> Vec<u8> {
    let secp = Secp256k1::new();
    let k = hash_index(&spec.hash);
    let mut b = InvoiceBuilder::new(Currency::Bitcoin)
        .description(format!("verif {}", spec.variant))
        .payment_hash(hash_of(k))
        // (another invoice for the same hash carries another payment secret, as a payee's second invoice would)
        .payment_secret(PaymentSecret([42u8 ^ spec.variant; 32]))
        .duration_since_epoch(std::time::Duration::from_secs(if spec.expiry > 0 { crate::clock::EPOCH_SECS } else { 1_700_000_000 }))
        .min_final_cltv_expiry_delta(18);
    if spec.expiry > 0 {
        b = b.expiry_time(std::time::Duration::from_secs(spec.expiry));
    }
    if spec.amt != 0 || spec.zero {
        b = b.amount_milli_satoshis(spec.amt);
    }
    let hops: String = if !spec.hops.is_empty() { spec.hops.clone() } else if spec.hint { String::from("L") } else { String::new() };
    if !hops.is_empty() {
        let hop = |c: char, k: u64| RouteHintHop {
            cltv_expiry_delta: 80,
            fees: RoutingFees {
                base_msat: 1000,
                proportional_millionths: 10,
            },
            htlc_maximum_msat: None,
            htlc_minimum_msat: None,
            short_channel_id: k,
            src_node_id: if c == 'L' { local_pubkey() } else { payee_pub(3) },
        };
        // several route hints are separated by ',' ("O,OL": two hints, the local node last in the second)
        for (n, hint) in hops.split(',').enumerate() {
            b = b.private_route(RouteHint(hint.chars().enumerate().map(|(k, c)| hop(c, (n * 16 + k) as u64)).collect()));
        }
    }
    let signer = payee_key(spec.payee);
    let s = match spec.form.as_str() {
        "badsig" => {
            // explicit payee field naming another key than the signer
            let other = payee_pub(spec.payee % 4 + 1);
            let raw: RawBolt11Invoice = b.payee_pub_key(other).build_raw().unwrap();
            let signed = raw
                .sign::<_, ()>(|h| Ok(secp.sign_ecdsa_recoverable(h, &signer)))
                .unwrap();
            signed.to_string()
        }
        "nfield" => {
            // the payee is named explicitly (n field = the signer's key) and the signature carries the OTHER recovery id:
            // it verifies against the named key, while key recovery yields some unrelated key
            let raw: RawBolt11Invoice = b.payee_pub_key(payee_pub(spec.payee)).build_raw().unwrap();
            let signed = raw
                .sign::<_, ()>(|h| {
                    let sig = secp.sign_ecdsa_recoverable(h, &signer);
                    let (id, bytes) = sig.serialize_compact();
                    let flipped = secp256k1::ecdsa::RecoveryId::from_i32(id.to_i32() ^ 1).unwrap();
                    Ok(secp256k1::ecdsa::RecoverableSignature::from_compact(&bytes, flipped).unwrap())
                })
                .unwrap();
            signed.to_string()
        }
        "noncanon" => {
            // a valid invoice whose text is not the canonical encoding of its fields: an expiry field (tag 'x' = 6,
            // 3 groups) with a leading zero group.  Parsing and re-encoding it yields another string, which nobody signed.
            use bech32::u5;
            let mut raw: RawBolt11Invoice = b.build_raw().unwrap();
            let g = |v: u8| u5::try_from_u8(v).unwrap();
            raw.data.tagged_fields.push(lightning_invoice::RawTaggedField::UnknownSemantics(vec![g(6), g(0), g(3), g(0), g(1), g(28)]));
            let signed = raw
                .sign::<_, ()>(|h| Ok(secp.sign_ecdsa_recoverable(h, &signer)))
                .unwrap();
            signed.to_string()
        }
        _ => b
            .build_signed(|h| secp.sign_ecdsa_recoverable(h, &signer))
            .unwrap()
            .to_string(),
    };
    match spec.form.as_str() {
        "garbage" => b"lnbc1notaninvoice".to_vec(),
        "nonutf8" => {
            let mut v = s.into_bytes();
            v[5] = 0xff;
            v
        }
        "truncated" => s.as_bytes()[..s.len() - 7].to_vec(),
        // one character of the data part in upper case: mixed case is not valid bech32
        "mixedcase" => {
            let mut v = s.into_bytes();
            let at = v.iter().rposition(|c| c.is_ascii_lowercase()).unwrap_or(10);
            v[at] = v[at].to_ascii_uppercase();
            v
        }
        _ => s.into_bytes(),
    }
}

pub fn bigsize(v: u64, out: &mut Vec<u8>) {
    match v {
        0..=0xfc => out.push(v as u8),
        0xfd..=0xffff => {
            out.push(0xfd);
            out.extend_from_slice(&(v as u16).to_be_bytes());
        }
        0x10000..=0xffff_ffff => {
            out.push(0xfe);
            out.extend_from_slice(&(v as u32).to_be_bytes());
        }
        _ => {
            out.push(0xff);
            out.extend_from_slice(&v.to_be_bytes());
        }
    }
}

pub fn tlv_record(typ: u64, val: &[u8], out: &mut Vec<u8>) {
    bigsize(typ, out);
    bigsize(val.len() as u64, out);
    out.extend_from_slice(val);
}

pub fn tu64(v: u64) -> Vec<u8> {
    let b = v.to_be_bytes();
    let skip = b.iter().take_while(|x| **x == 0).count();
    b[skip..].to_vec()
}

/// Abstract HTLC description (the `shape` Classify.tla reasons about, plus
/// the numeric attributes).
#[derive(Clone, Debug, Serialize, Deserialize)]
pub struct HtlcSpec {
    /// the HTLC's own payment hash
    pub hash: String,
    /// index (1-based) into the scenario's invoice catalogue; 0 = no invoice record
    #[serde(default)]
    pub inv: usize,
    pub amt: u64,
    /// onion total_msat; 0 = absent
    #[serde(default)]
    pub total: u64,
    pub exp: u32,
    pub rel: i64,
    /// value of the amount TLV (33003); meaningful with decl_len
    #[serde(default)]
    pub decl: u64,
    /// length in bytes of the amount TLV; -1 = record absent; -2 = minimal tu64 encoding of decl
    #[serde(default = "minus1")]
    pub decl_len: i32,
    /// onion carries short_channel_id (plain forward)
    #[serde(default)]
    pub fwd: bool,
    /// onion carries forward_msat
    #[serde(default = "tru")]
    pub fwdmsat: bool,
    /// value of the onion's forward_msat when it differs from what the HTLC really carries (0 = the HTLC amount)
    #[serde(default)]
    pub fwd_amt: u64,
    /// "ok" (metadata record with inner TLV) | "absent" | "raw:<hex>" (metadata bytes verbatim) |
    /// "swapped" (amount record before the invoice record) | "overlen" (last record's length overstated by one)
    #[serde(default = "ok")]
    pub meta: String,
    /// extra records (type, hex value) placed in the outer payload, sorted in by type
    #[serde(default)]
    pub extra: Vec<(u64, String)>,
}
fn minus1() -> i32 {
    -1
}
fn tru() -> bool {
    true
}

/// Inner payment-metadata bytes for this HTLC.
pub fn metadata_bytes(h: &HtlcSpec, invs: &[InvSpec], cache: &mut HashMap<InvSpec, Vec<u8>>) -> Option<Vec<u8>> {
    if h.meta == "absent" {
        return None;
    }
    if let Some(raw) = h.meta.strip_prefix("raw:") {
        return Some(hex::decode(raw).unwrap_or_default());
    }
    let mut m = Vec::new();
    let mut inv_rec = Vec::new();
    if h.inv > 0 {
        let spec = &invs[h.inv - 1];
        let bytes = cache
            .entry(spec.clone())
            .or_insert_with(|| invoice_bytes(spec))
            .clone();
        tlv_record(33001, &bytes, &mut inv_rec);
    }
    // "swapped": the amount record comes first, the invoice record after it
    if h.meta != "swapped" {
        m.extend_from_slice(&inv_rec);
    }
    let mut last_len_at: Option<usize> = if inv_rec.is_empty() { None } else { Some(3) };
    if h.decl_len != -1 {
        let v = if h.decl_len == -2 {
            tu64(h.decl)
        } else {
            let n = h.decl_len as usize;
            let mut v = vec![0u8; n];
            let b = h.decl.to_be_bytes();
            for k in 0..n.min(8) {
                v[n - 1 - k] = b[7 - k];
            }
            v
        };
        last_len_at = Some(m.len() + 3);
        tlv_record(33003, &v, &mut m);
    }
    if h.meta == "swapped" {
        last_len_at = if inv_rec.is_empty() { last_len_at } else { Some(m.len() + 3) };
        m.extend_from_slice(&inv_rec);
    }
    // "overlen": the length field of the LAST record overstates what follows by one byte (the value bytes are intact):
    // not a well-formed stream
    if h.meta == "overlen" {
        if let Some(at) = last_len_at {
            // record types 33001/33003 are encoded in 3 bytes (fd + u16); the length follows as BigSize
            if m[at] < 0xfc {
                m[at] += 1;
            } else if m[at] == 0xfd {
                let n = u16::from_be_bytes([m[at + 1], m[at + 2]]).wrapping_add(1);
                m[at + 1..at + 3].copy_from_slice(&n.to_be_bytes());
            }
        }
    }
    Some(m)
}

/// Outer onion payload records (without the length prefix), as (type, value).
pub fn payload_records(h: &HtlcSpec, meta: Option<Vec<u8>>) -> Vec<(u64, Vec<u8>)> {
    let mut recs: Vec<(u64, Vec<u8>)> = Vec::new();
    recs.push((2, tu64(h.amt)));
    recs.push((4, tu64(h.exp as u64)));
    if h.fwd {
        recs.push((6, vec![0, 0, 1, 0, 0, 2, 0, 3]));
    } else {
        let mut pd = vec![7u8; 32];
        pd.extend_from_slice(&tu64(if h.total != 0 { h.total } else { h.amt }));
        recs.push((8, pd));
    }
    if let Some(m) = meta {
        recs.push((16, m));
    }
    for (t, v) in &h.extra {
        recs.push((*t, hex::decode(v).unwrap_or_default()));
    }
    recs.sort_by_key(|r| r.0);
    recs
}

pub fn encode_records(recs: &[(u64, Vec<u8>)]) -> Vec<u8> {
    let mut body = Vec::new();
    for (t, v) in recs {
        tlv_record(*t, v, &mut body);
    }
    body
}

pub fn with_len_prefix(body: &[u8]) -> Vec<u8> {
    let mut out = Vec::new();
    bigsize(body.len() as u64, &mut out);
    out.extend_from_slice(body);
    out
}

/// The htlc_accepted request as lightningd would send it (JSON params).
pub fn request_json(id: u64, h: &HtlcSpec, invs: &[InvSpec], cache: &mut HashMap<InvSpec, Vec<u8>>) -> Value {
    let meta = metadata_bytes(h, invs, cache);
    let recs = payload_records(h, meta);
    let payload = with_len_prefix(&encode_records(&recs));
    let mut onion = json!({
        "payload": hex::encode(&payload),
        "type": "tlv",
        "outgoing_cltv_value": h.exp,
        "shared_secret": "00".repeat(32),
        "next_onion": "",
    });
    if h.fwd {
        onion["short_channel_id"] = json!("1x2x3");
    }
    if h.fwdmsat {
        onion["forward_msat"] = json!(if h.fwd_amt != 0 { h.fwd_amt } else { h.amt });
    }
    if h.total != 0 {
        onion["total_msat"] = json!(h.total);
        onion["payment_secret"] = json!("07".repeat(32));
    }
    let hash_hex = if let Some(x) = h.hash.strip_prefix("raw:") {
        x.to_string()
    } else if let Some(x) = h.hash.strip_prefix("near:") {
        // a hash that differs from a catalogue hash only a little: "near:<name>:<variant>"
        let mut it = x.split(':');
        let name = it.next().unwrap_or("h1");
        let v: u32 = it.next().and_then(|v| v.parse().ok()).unwrap_or(1);
        let mut b = hash_of(hash_index(name)).to_byte_array();
        match v {
            1 => { b[3] ^= 0x5a; b[17] ^= 0x5a; }           // two bytes off by the same delta
            2 => { b[0] ^= 0x01; }                            // one bit, first byte
            3 => { b[31] ^= 0x80; }                           // one bit, last byte
            4 => { b.swap(0, 31); if b[0] == b[31] { b[0] ^= 1; } }   // same bytes, other order
            5 => { for k in 16..32 { b[k] ^= 0xff; } }        // first half equal
            6 => { for k in 0..16 { b[k] ^= 0xff; } }         // second half equal
            7 => { b[7] = b[7].wrapping_add(1); b[8] = b[8].wrapping_sub(1); }   // byte sum unchanged
            _ => {}
        }
        // a field that is not 32 bytes long: a prefix of the hash, nothing at all, one byte more
        match v {
            8 => hex::encode(&b[..20]),
            9 => String::new(),
            10 => hex::encode(&b[..31]),
            11 => format!("{}00", hex::encode(b)),
            _ => hex::encode(b),
        }
    } else {
        hex::encode(hash_of(hash_index(&h.hash)).to_byte_array())
    };
    json!({
        "onion": onion,
        "htlc": {
            "short_channel_id": "4x5x6",
            "id": id,
            "amount_msat": h.amt,
            "cltv_expiry": h.exp,
            "cltv_expiry_relative": h.rel,
            "payment_hash": hash_hex,
        },
    })
}
