//! Small deterministic PRNG (splitmix64) so runs are reproducible from VERIF_SEED.
pub struct Rng(u64);
impl Rng {
    pub fn new(seed: u64) -> Self {
        Rng(seed.wrapping_add(0x9e37_79b9_7f4a_7c15))
    }
    pub fn next(&mut self) -> u64 {
        self.0 = self.0.wrapping_add(0x9e37_79b9_7f4a_7c15);
        let mut z = self.0;
        z = (z ^ (z >> 30)).wrapping_mul(0xbf58_476d_1ce4_e5b9);
        z = (z ^ (z >> 27)).wrapping_mul(0x94d0_49bb_1331_11eb);
        z ^ (z >> 31)
    }
    pub fn below(&mut self, n: u64) -> u64 {
        if n == 0 {
            0
        } else {
            self.next() % n
        }
    }
    pub fn chance(&mut self, num: u64, den: u64) -> bool {
        self.below(den) < num
    }
}

// ---------------------------------------------------------------------------------------------------------------------
// `await_if_future!(expr)`: awaits `expr` when it is a future and just evaluates it otherwise, so that the harness
// keeps compiling when the plugin turns an `async fn` whose result the harness does not need (BlockWatcher::new_block)
// into a plain function or back (autoref specialisation: the impl for `Wrap<F: Future>` wins over the one for `&Wrap<T>`).
pub struct Wrap<T>(pub T);
pub struct IsFut;
pub struct IsVal;
pub trait FutTag {
    fn tag(&self) -> IsFut {
        IsFut
    }
}
impl<F: std::future::Future> FutTag for Wrap<F> {}
pub trait ValTag {
    fn tag(&self) -> IsVal {
        IsVal
    }
}
impl<T> ValTag for &Wrap<T> {}
impl IsFut {
    pub async fn run<F: std::future::Future>(self, w: Wrap<F>) {
        let _ = w.0.await;
    }
}
impl IsVal {
    pub async fn run<T>(self, _w: Wrap<T>) {}
}
#[macro_export]
macro_rules! await_if_future {
    ($e:expr) => {{
        #[allow(unused_imports)]
        use $crate::util::{FutTag, ValTag};
        let w = $crate::util::Wrap($e);
        let tag = (&w).tag();
        tag.run(w).await
    }};
}
