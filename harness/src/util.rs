//! Small deterministic PRNG (splitmix64) so runs are reproducible from VERIF_SEED.
pub struct Rng(u64);
impl Rng {
    pub fn new(seed: u64) -> Self {
        Rng(seed.wrapping_add(0x9e37_79b9_7f4a_7c15))
    }
    pub fn next(&mut self) -> u64 {
        self.0 = self.0.wrapping_add(0x9e37_79b9_7f4a_7c15);
        let mut z = self.0;
        z = (z ^ (z >> 30)).wrapping_mul(0xbf58_476d_1ce4_e5b9);
        z = (z ^ (z >> 27)).wrapping_mul(0x94d0_49bb_1331_11eb);
        z ^ (z >> 31)
    }
    pub fn below(&mut self, n: u64) -> u64 {
        if n == 0 {
            0
        } else {
            self.next() % n
        }
    }
    pub fn chance(&mut self, num: u64, den: u64) -> bool {
        self.below(den) < num
    }
}
