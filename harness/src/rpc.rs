//! Shadow of `crate::rpc`: the real trait `ClnRpc` and the real `RpcError`
//! (compiled from /repo/src/rpc.rs), but a type `Rpc` whose calls park in the
//! simulated node instead of a unix socket.  This is what lets the real
//! `ClnDatastore`, `PayPaymentProvider<Rpc>` and `BlockWatcher` (hard-wired to
//! the concrete type `crate::rpc::Rpc`) run against NodeSim.
use async_trait::async_trait;
use cln_rpc::model::{
    requests::{
        DatastoreRequest, GetinfoRequest, ListdatastoreRequest, ListsendpaysRequest, PayRequest,
        WaitsendpayRequest,
    },
    responses::{
        DatastoreResponse, GetinfoResponse, ListdatastoreResponse, ListsendpaysResponse,
        PayResponse, WaitsendpayResponse,
    },
};
use serde::{de::DeserializeOwned, Serialize};

include!(concat!(env!("OUT_DIR"), "/repo_rpc.rs"));
pub use real::{ClnRpc, RpcError};

use crate::sim;

#[derive(Clone, Default)]
pub struct Rpc {}

impl Rpc {
    pub fn new(_rpc_file: String) -> Self {
        Self {}
    }
}

async fn call<Q: Serialize, R: DeserializeOwned>(method: &str, req: &Q) -> Result<R, RpcError> {
    let params = serde_json::to_value(req).map_err(|e| RpcError::General(e.into()))?;
    let task = tokio::task::try_id().map(|i| i.to_string());
    let rx = sim::with(|s| s.submit(method, params, task));
    let res = match rx.await {
        Ok(r) => r,
        Err(_) => {
            // the node went away (crash): never resolves in practice because the
            // runtime is dropped first
            futures::future::pending::<()>().await;
            unreachable!()
        }
    };
    sim::with(|s| s.activity += 1);
    match res {
        Ok(v) => serde_json::from_value::<R>(v)
            .map_err(|e| RpcError::General(anyhow::anyhow!("malformed response: {}", e))),
        Err(e) if e.transport => Err(RpcError::General(anyhow::anyhow!("{}", e.message))),
        Err(e) => Err(RpcError::Rpc(cln_rpc::RpcError {
            code: e.code,
            message: e.message,
            data: None,
        })),
    }
}

#[async_trait]
impl ClnRpc for Rpc {
    async fn datastore(&self, request: &DatastoreRequest) -> Result<DatastoreResponse, RpcError> {
        call("datastore", request).await
    }
    async fn get_info(&self) -> Result<GetinfoResponse, RpcError> {
        call("getinfo", &GetinfoRequest {}).await
    }
    async fn listdatastore(
        &self,
        request: &ListdatastoreRequest,
    ) -> Result<ListdatastoreResponse, RpcError> {
        call("listdatastore", request).await
    }
    async fn listsendpays(
        &self,
        request: &ListsendpaysRequest,
    ) -> Result<ListsendpaysResponse, RpcError> {
        call("listsendpays", request).await
    }
    async fn pay(&self, request: &PayRequest) -> Result<PayResponse, RpcError> {
        call("pay", request).await
    }
    async fn waitsendpay(
        &self,
        request: WaitsendpayRequest,
    ) -> Result<WaitsendpayResponse, RpcError> {
        call("waitsendpay", &request).await
    }
}
