// The plugin's modules are compiled straight from the repository's working tree.  The tree is /repo; the
// environment variable VERIF_REPO can point the harness at another checkout (used only to evaluate seeded changes
// in scratch worktrees without touching /repo).
use std::{env, fs, path::Path};

fn main() {
    let repo = env::var("VERIF_REPO").unwrap_or_else(|_| String::from("/repo"));
    println!("cargo:rerun-if-env-changed=VERIF_REPO");
    println!("cargo:rustc-env=VFH_REPO_DIR={}", repo.trim_end_matches('/'));
    let out = env::var("OUT_DIR").unwrap();
    let mods = [
        ("block_watcher", "block_watcher.rs"),
        ("cln_plugin", "cln_plugin/mod.rs"),
        ("email", "email.rs"),
        ("htlc_manager", "htlc_manager.rs"),
        ("messages", "messages.rs"),
        ("payment_provider", "payment_provider.rs"),
        ("store", "store.rs"),
        ("tlv", "tlv.rs"),
    ];
    let mut s = String::new();
    for (m, f) in mods {
        s.push_str(&format!("#[path = \"{}/src/{}\"]\nmod {};\n", repo, f, m));
        println!("cargo:rerun-if-changed={}/src/{}", repo, f);
    }
    fs::write(Path::new(&out).join("repo_mods.rs"), s).unwrap();
    fs::write(
        Path::new(&out).join("repo_rpc.rs"),
        format!("#[path = \"{}/src/rpc.rs\"]\nmod real;\n", repo),
    )
    .unwrap();
    println!("cargo:rerun-if-changed={}/src/rpc.rs", repo);
}
